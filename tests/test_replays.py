"""Plain unit tests that replay recorded violations WITHOUT the explorers.

Every `VIOLATION property=<id> replay=<path>` line points to a JSON file holding the minimal case (configuration
and schedule as a list of choices, operation list, crash point, input).  `./vf replay <path>` re-executes exactly
that case through the property module's `replay()`; this file does the same under pytest:

    cd /verif && /venv/bin/python -m pytest -q tests/test_replays.py            # all files under /verif/replays
    cd /verif && VF_REPLAY=<path> /venv/bin/python -m pytest -q tests/test_replays.py

A test FAILS when the recorded violation still reproduces on the current /repo tree.
"""
import glob
import importlib
import json
import os
import sys

import pytest

sys.path.insert(0, os.path.dirname(os.path.dirname(os.path.abspath(__file__))))
FILES = [os.environ['VF_REPLAY']] if os.environ.get('VF_REPLAY') else sorted(glob.glob('/verif/replays/*/*.json'))


@pytest.mark.parametrize('path', FILES or [None])
def test_replay(path):
    if path is None:
        pytest.skip('no recorded violation under /verif/replays')
    with open(path) as fil:
        rec = json.load(fil)
    mod = importlib.import_module('vfw.props.' + rec['property'].lower())
    obs = mod.replay(rec['case'])
    assert not obs.get('violates'), f"{rec['key']} still reproduces: {rec['what']}\n{json.dumps(obs, indent=1, default=repr)[:2000]}"
