'''Demo for C13: representing a test result must not change the datasets the
result was computed from, nor what a re-evaluation / later representation
yields.

A spectrum with never-scored bins (nan / inf absolute errors) is compared with
a Student test and with an equality test; the results are then represented as
plots (read-only operation), several times and at several verbosities.
'''
import copy
import pickle
from collections import OrderedDict
import numpy as np

from valjean.eponine.dataset import Dataset
from valjean.gavroche.test import TestEqual, TestApproxEqual
from valjean.gavroche.stat_tests.student import TestStudent
from valjean.javert.representation import (PlotRepresenter, TableRepresenter,
                                           FullRepresenter, Representation)
from valjean.javert.verbosity import Verbosity
from valjean.fingerprint import fingerprint


def make_ds(name, shift=0.0):
    bins = OrderedDict([('e', np.array([0., 1., 2., 3., 4., 5.]))])
    value = np.array([1.0, 2.0, 0.0, 4.0, 5.0]) + shift
    # bin 2 never scored: error is nan; bin 4: infinite error
    error = np.array([0.1, 0.2, np.nan, 0.4, np.inf])
    return Dataset(value, error, bins=bins, name=name, what='flux')


def snapshot(test):
    return [(ds.value.tobytes(), ds.error.tobytes(),
             [b.tobytes() for b in ds.bins.values()])
            for ds in (test.dsref,) + tuple(test.datasets)]


def tables_fingerprints(result):
    rep = Representation(TableRepresenter(), verbosity=Verbosity.FULL_DETAILS)
    return [fingerprint(t) for t in rep(result)]


def check(test):
    result = test.evaluate()
    before = snapshot(test)
    pick_before = pickle.dumps(test.dsref.error)
    verdict = bool(result)
    tabs_before = tables_fingerprints(result)
    assert snapshot(test) == before, 'table repr changed the datasets'

    # read-only operations: plot representation at all verbosities, twice
    for _ in range(2):
        for verb in Verbosity:
            Representation(PlotRepresenter(), verbosity=verb)(result)
            Representation(FullRepresenter(), verbosity=verb)(result)
    copy.deepcopy(result)

    assert bool(result) == verdict, 'verdict changed'
    after = snapshot(test)
    assert after == before, (
        f'{type(test).__name__}: datasets changed by plot representation: '
        f'dsref.error is now {test.dsref.error}')
    assert pickle.dumps(test.dsref.error) == pick_before
    assert tables_fingerprints(result) == tabs_before, \
        'table representation differs after plot representation'


def main():
    check(TestStudent(make_ds('ref'), make_ds('other', 0.05), name='student'))
    check(TestEqual(make_ds('ref'), make_ds('other'), name='equal'))
    check(TestApproxEqual(make_ds('ref'), make_ds('other', 1e-12),
                          name='approx'))
    print('OK: datasets, verdicts and tables unchanged by representation')


if __name__ == '__main__':
    import warnings
    warnings.simplefilter('ignore')
    main()
