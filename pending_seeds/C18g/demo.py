'''Demo for property C18: the statistics by labels count every test result
carrying the requested labels exactly once (successes + failures == number of
results carrying the labels), per label combination.

Exits 0 when the property holds, raises AssertionError otherwise.
'''
from valjean.gavroche.diagnostics.metadata import TestMetadata
from valjean.gavroche.diagnostics.stats import (TestStatsTestsByLabels,
                                                TestStatsTests, TestOutcome)
from valjean.eponine.browser import Index

SAME = {'a': {'menu': 1}, 'b': {'menu': 1}}
DIFF = {'a': {'menu': 1}, 'b': {'menu': 2}}


def make_results():
    '''Four metadata tests; only the first one carries the 'code' label.'''
    tests = [
        TestMetadata(SAME, name='t0',
                     labels={'code': 'A', 'meal': 'lunch', 'day': 'Mon'}),
        TestMetadata(SAME, name='t1', labels={'meal': 'lunch', 'day': 'Mon'}),
        TestMetadata(DIFF, name='t2', labels={'meal': 'lunch', 'day': 'Mon'}),
        TestMetadata(DIFF, name='t3', labels={'meal': 'dinner', 'day': 'Mon'}),
    ]
    return [test.evaluate() for test in tests]


def expected_by_labels(results, by_labels):
    '''Brute-force oracle: count the results per label combination.'''
    exp = {}
    for res in results:
        labels = res.test.labels
        if not all(lab in labels for lab in by_labels):
            continue
        combo = tuple(labels[lab] for lab in by_labels)
        dct = exp.setdefault(combo, {'OK': 0, 'KO': 0, 'total': 0})
        dct['OK' if res else 'KO'] += 1
        dct['total'] += 1
    return exp


def check(results, by_labels):
    '''Compare the diagnostic with the brute-force oracle.'''
    task_results = (('some_task', {'result': results}),)
    stats = TestStatsTestsByLabels(name='by_labels', task_results=task_results,
                                   by_labels=by_labels).evaluate()
    exp = expected_by_labels(results, by_labels)
    got = {dct['labels']: {k: dct[k] for k in ('OK', 'KO', 'total')}
           for dct in stats.classify}
    print(by_labels, '->', got)
    assert len(got) == len(stats.classify), 'label combination listed twice'
    for dct in stats.classify:
        assert dct['OK'] + dct['KO'] == dct['total'], dct
    assert got == exp, f'by_labels={by_labels}: got {got}, expected {exp}'
    n_with_labels = sum(all(lab in res.test.labels for lab in by_labels)
                        for res in results)
    assert sum(dct['OK'] + dct['KO'] for dct in stats.classify) \
        == n_with_labels, 'some results were not counted'
    assert stats.nb_missing_labels() == len(results) - n_with_labels
    assert bool(stats) == all(bool(res) for res in results
                              if all(lab in res.test.labels
                                     for lab in by_labels))


def check_index():
    '''The sub-index of a set of ids keeps every keyword of these ids.'''
    index = Index()
    lod = [{'code': 'A', 'meal': 'lunch'}, {'meal': 'lunch'},
           {'meal': 'dinner'}]
    for i, dct in enumerate(lod):
        for key, val in dct.items():
            index[key][val].add(i)
    sub = index.keep_only({0, 1, 2})
    assert {k: dict(v) for k, v in sub.items()} \
        == {k: dict(v) for k, v in index.items()}, sub


def main():
    '''Run all the checks.'''
    results = make_results()
    # overall summary: every result once
    overall = TestStatsTests(name='all', task_results=(
        ('some_task', {'result': results}), ('other', {}))).evaluate()
    assert len(overall.classify[TestOutcome.SUCCESS]) == 2
    assert len(overall.classify[TestOutcome.FAILURE]) == 2
    assert len(overall.classify[TestOutcome.MISSING]) == 1
    for by_labels in [('day',), ('meal',), ('code',), ('meal', 'day'),
                      ('code', 'meal'), ('day', 'meal'),
                      ('day', 'meal', 'code')]:
        check(results, by_labels)
    check_index()
    print('OK')


if __name__ == '__main__':
    main()
