'''Demo for property C02: the run outcome depends on the graph and the task
results only.  A task that returns a malformed result (here: an environment
update that is not a mapping) must end FAILED, and its hard dependees must be
SKIPPED and never executed, for every worker count.
'''
import sys

from valjean.cosette.task import Task, TaskStatus
from valjean.cosette.depgraph import DepGraph
from valjean.cosette.scheduler import Scheduler
from valjean.cosette.backends.queue import QueueScheduling

S = TaskStatus


class Returns(Task):
    '''A task that returns a fixed result and counts its executions.'''

    def __init__(self, name, result):
        super().__init__(name)
        self.result = result
        self.runs = 0

    def do(self, env, config):
        self.runs += 1
        return self.result


def run(bad_update, n_workers):
    '''root returns (bad_update, DONE); hard <-hard- root; soft <-soft- root;
    leaf <-hard- hard.'''
    root = Returns('root', (bad_update, S.DONE))
    hard = Returns('hard', ({}, S.DONE))
    soft = Returns('soft', ({'soft': {'seen': True}}, S.DONE))
    leaf = Returns('leaf', (None, S.DONE))
    hard_graph = DepGraph.from_dependency_dictionary(
        {root: [], hard: [root], leaf: [hard], soft: []})
    soft_graph = DepGraph.from_dependency_dictionary({soft: [root]})
    sched = Scheduler(hard_graph=hard_graph, soft_graph=soft_graph,
                      backend=QueueScheduling(n_workers=n_workers))
    env = sched.schedule()
    tasks = (root, hard, soft, leaf)
    return ({t.name: env.get_status(t) for t in tasks},
            {t.name: t.runs for t in tasks})


EXPECTED_STATUS = {'root': S.FAILED, 'hard': S.SKIPPED, 'soft': S.DONE,
                   'leaf': S.SKIPPED}
EXPECTED_RUNS = {'root': 1, 'hard': 0, 'soft': 1, 'leaf': 0}

# updates that are not mappings: non-empty and empty ones alike
BAD_UPDATES = [[('root', 1)], 5, 'spam', (1, 2), [], (), '', 0, False, set()]

errors = []
for bad in BAD_UPDATES:
    for n_workers in (1, 2, 4):
        status, runs = run(bad, n_workers)
        if status != EXPECTED_STATUS or runs != EXPECTED_RUNS:
            errors.append(f'update {bad!r}, {n_workers} workers: '
                          f'status {status}, runs {runs}')

# sanity: well-formed results are still accepted
for good in (None, {}, {'root': {'x': 1}}):
    status, runs = run(good, 2)
    assert all(st == S.DONE for st in status.values()), (good, status)
    assert all(n == 1 for n in runs.values()), (good, runs)

for err in errors:
    print('VIOLATION:', err)
assert not errors, f'{len(errors)} runs violate C02'
print('OK')
sys.exit(0)
