'''Demo for property C16: a DepGraph must mirror a plain node/edge set under
any edit history, and derived graphs (here: invert()) must behave like
independent, ordinary graphs.

History used: build  a -> c,  b -> c  from the empty graph, invert it, then add
one dependency to ONE of the nodes of the inverted graph and compare with a
plain model made of a node set and an edge set.
'''
from valjean.cosette.depgraph import DepGraph


def model_check(graph, nodes, edges):
    '''Compare `graph` with the mathematical graph (nodes, edges).'''
    assert set(graph.nodes()) == nodes, (set(graph.nodes()), nodes)
    assert len(graph) == len(nodes)
    for node in nodes:
        exp_deps = {t for (s, t) in edges if s == node}
        exp_dees = {s for (s, t) in edges if t == node}
        got_deps = graph.dependencies(node)
        got_dees = graph.dependees(node)
        assert len(got_deps) == len(set(got_deps))
        assert set(got_deps) == exp_deps, \
            f'dependencies of {node}: {sorted(got_deps)} != {sorted(exp_deps)}'
        assert set(got_dees) == exp_dees, \
            f'dependees of {node}: {sorted(got_dees)} != {sorted(exp_dees)}'


def main():
    a, b, c, d = 'a', 'b', 'c', 'd'
    graph = DepGraph()
    graph.add_dependency(a, on=c)
    graph.add_dependency(b, on=c)
    nodes = {a, b, c}
    edges = {(a, c), (b, c)}
    model_check(graph, nodes, edges)

    inv = graph.invert()
    inv_edges = {(t, s) for (s, t) in edges}
    model_check(inv, nodes, inv_edges)
    model_check(graph, nodes, edges)

    # edit the derived graph: only `a` gets a new dependency
    inv.add_dependency(a, on=d)
    inv_nodes = nodes | {d}
    inv_edges = inv_edges | {(a, d)}
    model_check(graph, nodes, edges)   # the original is untouched
    model_check(inv, inv_nodes, inv_edges)

    # the topological sort of the inverted graph must respect exactly the
    # model constraints, and inverting back must give the model, too
    order = inv.topological_sort()
    assert sorted(order) == sorted(inv_nodes)
    for (src, tgt) in inv_edges:
        assert order.index(tgt) < order.index(src)
    back = inv.invert()
    model_check(back, inv_nodes, {(t, s) for (s, t) in inv_edges})
    print('OK')


if __name__ == '__main__':
    main()
