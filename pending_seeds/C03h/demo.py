'''Demo for property C03: scheduling always terminates (returns the
environment or raises) and leaves no worker thread behind.

The dependency cycle used here exists only in the union of the hard and of the
soft dependency graphs: each of them, taken alone, is acyclic.

Exit code 0: the property holds on these inputs; non-zero: it is violated.
'''

import os
import sys
import threading
import traceback

from valjean.cosette.depgraph import DepGraph, DepGraphError
from valjean.cosette.scheduler import Scheduler
from valjean.cosette.backends.queue import QueueScheduling
from valjean.cosette.task import DelayTask

TIMEOUT = 20.0


def call_schedule(hard, soft, n_workers):
    '''Run Scheduler.schedule() in a helper thread; return a tuple (came_back,
    outcome, backend, new_threads).'''
    before = set(threading.enumerate())
    backend = QueueScheduling(n_workers=n_workers)
    outcome = {}

    def target():
        try:
            sched = Scheduler(hard_graph=hard, soft_graph=soft,
                              backend=backend)
            outcome['env'] = sched.schedule()
        except Exception as exc:  # pylint: disable=broad-except
            outcome['error'] = exc

    caller = threading.Thread(target=target, daemon=True)
    caller.start()
    caller.join(TIMEOUT)
    came_back = not caller.is_alive()
    left = [t for t in threading.enumerate()
            if t not in before and t is not caller and t.is_alive()]
    return came_back, outcome, backend, left


def check(label, hard, soft, n_workers, expect_error):
    came_back, outcome, backend, left = call_schedule(hard, soft, n_workers)
    print(f'{label}: came back: {came_back}, outcome: {outcome!r}, '
          f'threads left: {len(left)}, queue size: {backend.queue.qsize()}')
    assert came_back, (f'{label}: schedule() did not come back within '
                       f'{TIMEOUT} s (deadlock: the master waits for workers '
                       'that have nothing to do)')
    assert ('env' in outcome) != ('error' in outcome)
    if expect_error:
        assert isinstance(outcome.get('error'), DepGraphError), outcome
    else:
        assert 'env' in outcome, outcome
    assert not left, f'{label}: worker threads left behind: {left}'
    assert backend.queue.empty(), f'{label}: the work queue is not empty'


def main():
    spam = DelayTask('spam', 0.01)
    eggs = DelayTask('eggs', 0.01)
    bacon = DelayTask('bacon', 0.01)
    toast = DelayTask('toast', 0.01)

    # sanity: acyclic hard + soft graphs
    hard = DepGraph.from_dependency_dictionary({spam: [], eggs: [spam],
                                                bacon: []})
    soft = DepGraph.from_dependency_dictionary({bacon: [eggs]})
    check('acyclic', hard, soft, 2, expect_error=False)

    # sanity: cycle in the hard graph
    hard = DepGraph.from_dependency_dictionary({spam: [eggs], eggs: [spam]})
    check('hard cycle', hard, None, 2, expect_error=True)

    # the cycle only appears when hard and soft dependencies are combined:
    # eggs -> spam is hard, spam -> eggs is soft
    for n_workers in (1, 3):
        hard = DepGraph.from_dependency_dictionary({toast: [], spam: [],
                                                    eggs: [spam],
                                                    bacon: [eggs]})
        soft = DepGraph.from_dependency_dictionary({spam: [eggs]})
        check(f'mixed hard/soft cycle, {n_workers} worker(s)', hard, soft,
              n_workers, expect_error=True)

    # the cycle is made of soft dependencies only
    hard = DepGraph.from_dependency_dictionary({spam: [], eggs: [],
                                                toast: []})
    soft = DepGraph.from_dependency_dictionary({spam: [eggs], eggs: [spam]})
    check('soft cycle', hard, soft, 2, expect_error=True)


if __name__ == '__main__':
    try:
        main()
    except AssertionError:
        traceback.print_exc()
        sys.stdout.flush()
        sys.stderr.flush()
        # stuck non-daemon worker threads would keep the interpreter alive
        os._exit(1)
    print('OK')
    sys.stdout.flush()
    os._exit(0)
