"""./vf selftest --what setup|schema|sched|all

setup : offline sanity check used as MANIFEST.setup_cmd (nothing to build:
        the framework is pure Python run by /venv/bin/python against /repo).
schema: validate MANIFEST.json and every evidence file with python3-vt's
        jsonschema.
sched : determinism of the controlled scheduler (same schedule, same
        observations, in-process twice and in a second process).
"""
import json
import os
import subprocess
import sys

from .report import ROOT


def setup():
    import valjean
    src = os.path.dirname(os.path.dirname(os.path.abspath(valjean.__file__)))
    print('valjean imported from', src)
    if os.path.realpath(src) != '/repo':
        print('WARNING: valjean is not imported from /repo')
    import numpy, scipy, pyparsing, h5py, docutils  # noqa: F401  pylint: disable=unused-import,multiple-imports
    for sub in ('evidence', 'replays'):
        os.makedirs(os.path.join(ROOT, sub), exist_ok=True)
    print('setup ok')
    return 0


def schema():
    code = r'''
import json, sys, glob, jsonschema
man = json.load(open('/verif/MANIFEST.json'))
jsonschema.validate(man, json.load(open('/root/.vp/MANIFEST.schema.json')))
print('MANIFEST.json valid;', len(man['checks']), 'checks,', len(man.get('not_applicable', [])), 'not applicable')
sch = json.load(open('/root/.vp/EVIDENCE.schema.json'))
bad = 0
for chk in man['checks']:
    path = chk['evidence_file']
    try:
        ev = json.load(open(path))
        jsonschema.validate(ev, sch)
        assert ev['level'] == chk['level_claimed']['category'], 'level mismatch'
        print(' ok ', path, ev['tier'], ev['coverage'].get('evaluations'))
    except Exception as exc:
        bad += 1
        print(' BAD', path, str(exc)[:300])
sys.exit(1 if bad else 0)
'''
    return subprocess.run(['python3-vt', '-c', code]).returncode


def sched():
    from ..sched import determinism
    return determinism.main()


def main(args):
    what = args.what
    if what == 'setup':
        return setup()
    if what == 'schema':
        return schema()
    if what == 'sched':
        return sched()
    rc = setup()
    rc |= sched()
    rc |= schema()
    return rc
