"""Result bookkeeping shared by every check: a mergeable Report, the evidence
writer, the known-findings matcher and the replay-file format.

A check never decides its own exit status: it returns a Report; `finish()`
matches violations against /verif/known_findings.txt, writes replay files
and the evidence file, prints the interface lines and returns the exit code.
"""
import collections
import fnmatch
import hashlib
import json
import os
import time

ROOT = os.path.dirname(os.path.dirname(os.path.dirname(os.path.abspath(__file__))))
FINDINGS = os.path.join(ROOT, 'known_findings.txt')
# VF_OUT redirects evidence and replay files (used when trying seeded changes, so that the committed
# evidence of the unchanged tree is not overwritten)
OUT = os.environ.get('VF_OUT') or ROOT


def jsonable(obj):
    """Best-effort conversion of a case description to JSON types."""
    import numpy as np
    if isinstance(obj, dict):
        return {str(k): jsonable(v) for k, v in obj.items()}
    if isinstance(obj, (list, tuple, set, frozenset)):
        return [jsonable(v) for v in obj]
    if isinstance(obj, np.ndarray):
        return jsonable(obj.tolist())
    if isinstance(obj, (np.floating, float)):
        f = float(obj)
        if f != f:
            return 'nan'
        if f in (float('inf'), float('-inf')):
            return 'inf' if f > 0 else '-inf'
        return f
    if isinstance(obj, (np.integer,)):
        return int(obj)
    if isinstance(obj, (np.bool_,)):
        return bool(obj)
    if obj is None or isinstance(obj, (str, int, bool)):
        return obj
    return repr(obj)


class Violation:
    """One violated instance.  `key` is the finding key (property|clause|
    smallest distinguishing description), `case` everything needed to replay
    it, `what` a one-line human description."""

    def __init__(self, key, what, case, size=0):
        self.key, self.what, self.case, self.size = key, what, case, size

    def to_tuple(self):
        return (self.key, self.what, jsonable(self.case), self.size)


class Report:
    """Mergeable coverage record of (part of) one check."""

    def __init__(self):
        self.evaluations = 0
        self.nontrivial = set()        # hashes of distinct non-trivial cases
        self.nontrivial_count = 0      # or a plain count when cases are distinct by construction
        self.states = 0
        self.transitions = 0
        self.traces = 0
        self.samples = []
        self.outcomes = collections.Counter()
        self.violations = {}           # key -> (what, case, size, count)
        self.caps = []
        self.extra = {}
        self.counters = collections.Counter()
        self.configs = []              # per-configuration summaries

    # -- recording -------------------------------------------------------
    def case(self, nontrivial=None, outcome=None):
        self.evaluations += 1
        if nontrivial is True:
            self.nontrivial_count += 1
        elif nontrivial not in (None, False):
            self.nontrivial.add(nontrivial)
        if outcome is not None:
            self.outcomes[outcome] += 1

    def sample(self, obj, limit=6):
        if len(self.samples) < limit:
            self.samples.append(jsonable(obj))

    def violate(self, key, what, case, size=0):
        old = self.violations.get(key)
        if old is None:
            self.violations[key] = [what, jsonable(case), size, 1]
        else:
            old[3] += 1
            if size < old[2]:
                old[0], old[1], old[2] = what, jsonable(case), size

    def cap(self, text):
        if text not in self.caps:
            self.caps.append(text)

    # -- merging ---------------------------------------------------------
    def merge(self, other):
        self.evaluations += other.evaluations
        self.nontrivial |= other.nontrivial
        self.nontrivial_count += other.nontrivial_count
        self.states += other.states
        self.transitions += other.transitions
        self.traces += other.traces
        for s in other.samples:
            if len(self.samples) < 8:
                self.samples.append(s)
        self.outcomes.update(other.outcomes)
        self.counters.update(other.counters)
        for key, (what, case, size, count) in other.violations.items():
            old = self.violations.get(key)
            if old is None:
                self.violations[key] = [what, case, size, count]
            else:
                old[3] += count
                if size < old[2]:
                    old[0], old[1], old[2] = what, case, size
        for c in other.caps:
            self.cap(c)
        self.configs.extend(other.configs)
        for k, v in other.extra.items():
            if isinstance(v, (int, float)) and isinstance(self.extra.get(k, 0), (int, float)):
                self.extra[k] = self.extra.get(k, 0) + v
            else:
                self.extra.setdefault(k, v)
        return self

    @property
    def n_nontrivial(self):
        return len(self.nontrivial) + self.nontrivial_count


def load_findings():
    """Parse known_findings.txt.  Lines:
         open: property=C15 key=<fnmatch pattern> :: <what fails>
         fixed: property=C01 <commit> <what failed>
       Fixed lines suppress nothing."""
    open_entries = []
    if os.path.exists(FINDINGS):
        with open(FINDINGS) as fil:
            for line in fil:
                line = line.strip()
                if not line.startswith('open:'):
                    continue
                head, _, what = line[5:].partition('::')
                fields = dict(f.split('=', 1) for f in head.split() if '=' in f)
                open_entries.append((fields.get('property'), fields.get('key'), what.strip()))
    return open_entries


def finish(pid, tier, seed, level, report, rule, assumptions, t0, technique=''):
    """Write replays + evidence, print interface lines, return exit code."""
    findings = [(p, k, w) for p, k, w in load_findings() if p == pid]
    new, known = [], {}
    for key in sorted(report.violations):
        what, case, size, count = report.violations[key]
        match = next(((k, w) for _, k, w in findings if fnmatch.fnmatchcase(key, k)), None)
        if match:
            known.setdefault(match, []).append((key, count))
        else:
            new.append((key, what, case, count))
    rdir = os.path.join(OUT, 'replays', pid)
    lines = []
    for (k, w), keys in known.items():
        lines.append(f'KNOWN-FINDING: property={pid} {w} [{len(keys)} key(s), e.g. {keys[0][0]}]')
    for key, what, case, count in new:
        os.makedirs(rdir, exist_ok=True)
        path = os.path.join(rdir, hashlib.sha1(key.encode()).hexdigest()[:12] + '.json')
        with open(path, 'w') as fil:
            json.dump({'property': pid, 'key': key, 'what': what, 'instances': count,
                       'case': case}, fil, indent=1, default=repr)
        lines.append(f'VIOLATION property={pid} replay={path}')
        lines.append(f'  key={key} instances={count}: {what}')
    exhaustive = not report.caps
    coverage = {
        'evaluations': report.evaluations,
        'distinct_nontrivial': report.n_nontrivial,
        'rule': rule,
        'samples': report.samples[:8] or ['(no case)'],
        'exhaustive': exhaustive,
        'distinct_outcomes': len(report.outcomes),
        'outcomes': {str(k): v for k, v in sorted(report.outcomes.items(), key=lambda kv: -kv[1])[:40]},
        'caps_hit': report.caps,
        'technique': technique,
        'violation_keys_new': [n[0] for n in new][:50],
        'violation_keys_known': sorted(k for v in known.values() for k, _ in v)[:50],
    }
    if report.states:
        coverage['states'] = report.states
        coverage['transitions'] = max(report.transitions, 1)
        coverage['traces_validated_against_impl'] = report.traces
    if report.counters:
        coverage['counters'] = {str(k): v for k, v in sorted(report.counters.items())}
    if report.configs:
        coverage['configurations'] = report.configs[:400]
    for k, v in report.extra.items():
        coverage.setdefault(k, jsonable(v))
    evidence = {
        'property_id': pid, 'tier': tier, 'seed': seed, 'level': level,
        'coverage': coverage, 'assumptions': assumptions,
        'wall_s': round(time.time() - t0, 2),
        'violations': len(new),
    }
    os.makedirs(os.path.join(OUT, 'evidence'), exist_ok=True)
    with open(os.path.join(OUT, 'evidence', pid + '.json'), 'w') as fil:
        json.dump(evidence, fil, indent=1, default=repr)
        fil.write('\n')
    for line in lines:
        print(line)
    print(f'{pid} {tier}: evaluations={report.evaluations} nontrivial={report.n_nontrivial} '
          f'states={report.states} transitions={report.transitions} outcomes={len(report.outcomes)} '
          f'exhaustive={exhaustive} new_violations={len(new)} known={sum(len(v) for v in known.values())} '
          f'wall={evidence["wall_s"]}s')
    return 1 if new else 0
