"""Process-pool helper: split a check into picklable jobs, run them on all
cores, merge the partial Reports in the parent (which alone writes evidence).
Workers are forked before the parent creates any thread."""
import multiprocessing
import os
import time
import traceback

from .report import Report


def rotate(items, seed):
    """VERIF_SEED only rotates the order in which jobs are explored."""
    items = list(items)
    if not items:
        return items
    k = seed % len(items)
    return items[k:] + items[:k]


def _call(args):
    func, job = args
    try:
        return func(job)
    except BaseException as exc:  # a crashing job must be loud, never silent
        rep = Report()
        rep.violate('HARNESS|job-crashed|' + type(exc).__name__,
                    'harness job crashed: ' + ''.join(traceback.format_exception_only(type(exc), exc)).strip(),
                    {'job': repr(job)[:400], 'traceback': traceback.format_exc()[-3000:]})
        return rep


def pmap(func, jobs, seed=0, procs=None, budget_s=None, chunksize=1):
    """Run func(job)->Report over jobs; merge.  If budget_s is exceeded the
    remaining jobs are dropped and a cap is recorded (never silently)."""
    jobs = rotate(jobs, seed)
    total = Report()
    if budget_s is None:
        # safety net against a hang in the code under test: a generous wall-clock cap per pool (reported as a cap, never as a violation)
        budget_s = float(os.environ.get('VF_POOL_BUDGET') or (1500 if os.environ.get('VF_TIER', 'quick') == 'quick' else 4 * 3600))
    procs = procs or min(16, os.cpu_count() or 1)
    t0 = time.time()
    if procs == 1 or len(jobs) <= 1:
        for i, job in enumerate(jobs):
            if budget_s and time.time() - t0 > budget_s:
                total.cap(f'time budget {budget_s}s: {len(jobs) - i} of {len(jobs)} jobs not run')
                break
            total.merge(_call((func, job)))
        return total
    ctx = multiprocessing.get_context('fork')
    with ctx.Pool(procs) as pool:
        it = pool.imap_unordered(_call, [(func, j) for j in jobs], chunksize)
        done = 0
        while True:
            try:
                left = None if not budget_s else max(1.0, budget_s - (time.time() - t0))
                rep = it.next(left)
            except StopIteration:
                break
            except multiprocessing.TimeoutError:
                total.cap(f'time budget {budget_s}s: {len(jobs) - done} of {len(jobs)} jobs not finished')
                pool.terminate()
                break
            done += 1
            total.merge(rep)
    return total
