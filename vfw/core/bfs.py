"""Generic explicit-state breadth-first search where a state *is* the history
(tuple of operations) that reaches it.  `build(history)` must create fresh
real objects and replay the operations on the implementation; `canon(obj)`
gives the hashable concrete state; `check(history, obj)` evaluates the
invariant / reference comparison and returns a list of (key, what) problems.
"""
import collections


def search(build, ops_of, canon, check, depth, report, label='', prune_violating=True, on_new=None):
    """Breadth-first search from the empty history.

    ops_of(history, obj) -> iterable of operations enabled in that state
    Returns dict canon -> shortest history."""
    root = ()
    obj = build(root)
    seen = {canon(obj): root}
    for key, what in check(root, obj) + (on_new(root, obj) if on_new else []):
        report.violate(key, what, {'history': list(root), 'label': label}, size=0)
    frontier = collections.deque([root])
    report.states += 1
    maxdepth = 0
    while frontier:
        hist = frontier.popleft()
        if len(hist) >= depth:
            continue
        base = build(hist)
        for oper in ops_of(hist, base):
            nxt = hist + (oper,)
            obj = build(nxt)
            report.transitions += 1
            report.traces += 1
            report.evaluations += 1
            problems = check(nxt, obj)
            for key, what in problems:
                report.violate(key, what, {'history': [list(o) if isinstance(o, tuple) else o for o in nxt],
                                           'label': label}, size=len(nxt))
            if problems and prune_violating:
                continue
            k = canon(obj)
            if k not in seen:
                if on_new:
                    problems = on_new(nxt, obj)
                    for key, what in problems:
                        report.violate(key, what, {'history': [list(o) if isinstance(o, tuple) else o for o in nxt],
                                                   'label': label}, size=len(nxt))
                    if problems and prune_violating:
                        continue
                seen[k] = nxt
                report.states += 1
                maxdepth = max(maxdepth, len(nxt))
                frontier.append(nxt)
    report.extra['max_depth_' + label if label else 'max_depth'] = maxdepth
    return seen
