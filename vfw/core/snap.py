"""Deep, hashable snapshot of an object graph: attribute dictionaries recursively,
mapping key sets (including those of default dictionaries), arrays as dtype/shape/bytes,
floats NaN-safe.  Two snapshots are equal iff the graphs are bit-for-bit the same as far
as Python can observe without identity."""
import collections
import enum

import numpy as np


def deepsnap(obj, _seen=None, _depth=0):
    if _seen is None:
        _seen = {}
    if obj is None or isinstance(obj, (bool, int, str, bytes)):
        return obj
    if isinstance(obj, float):
        return ('f', obj.hex() if obj == obj else 'nan')
    if isinstance(obj, complex):
        return ('c', repr(obj))
    if isinstance(obj, enum.Enum):
        return ('enum', type(obj).__name__, obj.name)
    if isinstance(obj, np.ma.MaskedArray):
        return ('ma', obj.dtype.str, obj.shape, np.ma.getdata(obj).tobytes(), np.ma.getmaskarray(obj).tobytes())
    if isinstance(obj, np.ndarray):
        if obj.dtype == object:
            return ('ndo', obj.shape, tuple(deepsnap(x, _seen, _depth + 1) for x in obj.ravel()))
        return ('nd', obj.dtype.str, obj.shape, obj.tobytes())
    if isinstance(obj, np.generic):
        return ('ng', obj.dtype.str, obj.tobytes())
    oid = id(obj)
    if oid in _seen:
        return ('ref', _seen[oid])
    _seen[oid] = len(_seen)
    if _depth > 60:
        return ('deep', type(obj).__name__)
    if isinstance(obj, collections.defaultdict):
        return ('defaultdict', tuple(sorted(((deepsnap(k, _seen, _depth + 1), deepsnap(v, _seen, _depth + 1)) for k, v in obj.items()),
                                            key=repr)))
    if isinstance(obj, collections.OrderedDict):
        return ('odict', tuple((deepsnap(k, _seen, _depth + 1), deepsnap(v, _seen, _depth + 1)) for k, v in obj.items()))
    if isinstance(obj, dict):
        return ('dict', tuple(sorted(((deepsnap(k, _seen, _depth + 1), deepsnap(v, _seen, _depth + 1)) for k, v in obj.items()), key=repr)))
    if isinstance(obj, (list, tuple)):
        return (type(obj).__name__, tuple(deepsnap(x, _seen, _depth + 1) for x in obj))
    if isinstance(obj, (set, frozenset)):
        return ('set', tuple(sorted((deepsnap(x, _seen, _depth + 1) for x in obj), key=repr)))
    if callable(obj) and not hasattr(obj, '__dict__'):
        return ('callable', getattr(obj, '__qualname__', repr(obj)))
    state = getattr(obj, '__dict__', None)
    if state is not None:
        slots = {}
        for name in getattr(type(obj), '__slots__', ()):
            if hasattr(obj, name):
                slots[name] = getattr(obj, name)
        return ('obj', type(obj).__module__ + '.' + type(obj).__qualname__,
                tuple((k, deepsnap(v, _seen, _depth + 1)) for k, v in sorted({**state, **slots}.items())
                      if k not in ('lock',)))
    if hasattr(type(obj), '__slots__'):
        return ('slots', type(obj).__qualname__,
                tuple((n, deepsnap(getattr(obj, n), _seen, _depth + 1)) for n in type(obj).__slots__ if hasattr(obj, n)))
    return ('repr', type(obj).__name__, repr(obj))


def diff(one, two, path=''):
    """First difference between two snapshots (for messages)."""
    if one == two:
        return ''
    if type(one) is not type(two) or not isinstance(one, tuple) or len(one) != len(two):
        return f'{path or "/"}: {str(one)[:80]} != {str(two)[:80]}'
    for i, (a, b) in enumerate(zip(one, two)):
        if a != b:
            label = a[0] if isinstance(a, tuple) and a and isinstance(a[0], str) else i
            return diff(a, b, f'{path}/{label}') or f'{path}/{label} differs'
    return f'{path}: differs'
