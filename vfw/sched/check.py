"""Shared runner of the scheduler checks (C01, C02, C03): explores every
configuration at its preemption bound on all cores, evaluates the oracles of
harness.py on every execution and keeps the violations of the property asked
for (violations of the sibling properties found on the way are counted only).
"""
import json
import time

from ..core.report import Report
from ..core import pool
from . import explore, harness

SPLIT_TARGET = 24


def cfg_id(cfg):
    return json.dumps(cfg, sort_keys=True, separators=(',', ':'))


def _make(cfg):
    return lambda rtm: harness.SchedHarness(cfg, rtm)


def _collector(pid, cfg, bound, rep):
    cid = cfg_id(cfg)

    def on_execution(exe):
        obs = harness.observe(exe)
        rep.case(nontrivial=bool(exe.preemptions) or None, outcome=obs[:4])
        rep.traces += 1
        rep.transitions += len(exe.rec)
        rep.counters['exec:' + cid] += 1
        if exe.outcome[0] == 'quiescent':
            rep.counters['executions_quiescent'] += 1
        if len(rep.samples) < 2 and exe.preemptions:
            rep.sample({'config': cfg, 'bound': bound, 'schedule(choice index per point)': [c[0] for c in exe.choices],
                        'observed': obs})
        for key, what in harness.oracle(exe, cfg):
            if key.startswith(pid) or key.startswith('HARNESS'):
                rep.violate(key, what, {'config': cfg, 'bound': bound, 'schedule': exe.choices,
                                        'preemptions': exe.preemptions}, size=exe.preemptions * 1000 + len(exe.rec))
            else:
                rep.counters['sibling_violation:' + key.split('|')[0]] += 1
        rep.extra.setdefault('_obs', {}).setdefault(cid, set()).add(obs[2:4])
    return on_execution


def _stage1(job):
    pid, cfg, bound = job
    rep = Report()
    exp = explore.Explorer(_make(cfg), bound, _collector(pid, cfg, bound, rep), state_fn=harness.state_fn)
    subs = exp.split(SPLIT_TARGET)
    rep.extra['_subs'] = [(pid, cfg, bound, sub) for sub in subs]
    rep.extra['_states'] = {cfg_id(cfg): set(exp.states)}
    return rep


def _stage2(job):
    pid, cfg, bound, prefix = job
    rep = Report()
    exp = explore.Explorer(_make(cfg), bound, _collector(pid, cfg, bound, rep), state_fn=harness.state_fn)
    exp.stack.clear()
    exp.stack.append(prefix)
    exp.run()
    rep.extra['_states'] = {cfg_id(cfg): set(exp.states)}
    rep.counters['jobs:' + cfg_id(cfg)] += 1
    return rep


def _merge_sets(total, rep, name):
    dst = total.extra.setdefault(name, {})
    for cid, val in rep.extra.pop(name, {}).items():
        dst.setdefault(cid, set()).update(val)


def run_configs(pid, plan, seed, budget_s):
    """plan: list of (cfg, bound).  Returns the merged Report."""
    t0 = time.time()
    total = Report()
    best = {}
    for cfg, bound in plan:          # one entry per configuration: the deepest bound asked for
        cid = cfg_id(cfg)
        if cid not in best or best[cid][1] < bound:
            best[cid] = (cfg, bound)
    plan = list(best.values())
    jobs1 = [(pid, cfg, bound) for cfg, bound in plan]
    subs, expected = [], {}
    # stage 1 (split) and stage 2 (subtrees) both go through the pool; set-valued extras are merged by hand
    parts = _pmap_keep(_stage1, jobs1, seed, budget_s)
    for rep in parts:
        for sub in rep.extra.pop('_subs', []):
            subs.append(sub)
            expected[cfg_id(sub[1])] = expected.get(cfg_id(sub[1]), 0) + 1
        _merge_sets(total, rep, '_states')
        _merge_sets(total, rep, '_obs')
        total.merge(rep)
    left = None if not budget_s else max(5.0, budget_s - (time.time() - t0))
    parts = _pmap_keep(_stage2, subs, seed, left, total)
    for rep in parts:
        _merge_sets(total, rep, '_states')
        _merge_sets(total, rep, '_obs')
        total.merge(rep)
    states = total.extra.pop('_states', {})
    obs = total.extra.pop('_obs', {})
    total.states = sum(len(v) for v in states.values())
    incomplete = 0
    for cfg, bound in plan:
        cid = cfg_id(cfg)
        done = total.counters.pop('jobs:' + cid, 0)
        nexe = total.counters.pop('exec:' + cid, 0)
        complete = done == expected.get(cid, 0) and nexe > 0
        incomplete += 0 if complete else 1
        total.configs.append({'config': cfg, 'preemption_bound': bound, 'completed': complete, 'executions': nexe,
                              'abstract_states': len(states.get(cid, ())),
                              'distinct_final_status_maps': len(obs.get(cid, ()))})
    if incomplete:
        total.cap(f'{incomplete} of {len(plan)} configurations not completed at their preemption bound')
    total.extra['configurations_total'] = len(plan)
    total.extra['configurations_completed'] = len(plan) - incomplete
    total.extra['max_preemption_bound'] = max((b for _, b in plan), default=0)
    return total


def _pmap_keep(func, jobs, seed, budget_s, total=None):
    """pool.pmap variant that returns the partial reports (set-valued extras need a custom merge)."""
    import multiprocessing
    import os
    jobs = pool.rotate(jobs, seed)
    out = []
    if not jobs:
        return out
    ctx = multiprocessing.get_context('fork')
    t0 = time.time()
    with ctx.Pool(min(16, os.cpu_count() or 1)) as pol:
        itr = pol.imap_unordered(pool._call, [(func, j) for j in jobs], 1)  # pylint: disable=protected-access
        while True:
            try:
                left = None if not budget_s else max(1.0, budget_s - (time.time() - t0))
                out.append(itr.next(left))
            except StopIteration:
                break
            except multiprocessing.TimeoutError:
                if total is not None:
                    total.cap(f'time budget {budget_s:.0f}s reached: {len(jobs) - len(out)} of {len(jobs)} subtree jobs not finished')
                pol.terminate()
                break
    return out


def _por_job(job):
    pid, cfg, cap = job
    from . import runtime
    rep = Report()
    cid = cfg_id(cfg)
    old = runtime.POR
    runtime.POR = True          # release / notify / clock reads are scheduling points too: one object per segment
    try:
        def on_execution(exe):
            obs = harness.observe(exe)
            rep.case(nontrivial=True, outcome=obs[:4])
            rep.traces += 1
            rep.transitions += len(exe.rec)
            for key, what in harness.oracle(exe, cfg):
                if key.startswith(pid) or key.startswith('HARNESS'):
                    rep.violate(key, what + ' [all-interleavings mode]', {'config': cfg, 'mode': 'sleep-sets', 'thread ids per point': exe.choices},
                                size=len(exe.rec))
        exp = explore.SleepSetExplorer(_make(cfg), on_execution)
        done = exp.run(cap=cap)
    finally:
        runtime.POR = old
    rep.configs.append({'config': cfg, 'mode': 'all interleavings modulo independence (sleep sets, no preemption bound)', 'completed': done,
                        'executions': exp.executions, 'complete_traces': exp.complete_traces, 'sleep_set_blocked': exp.blocked})
    if not done:
        rep.cap(f'sleep-set exploration of {cid} stopped at {cap} executions')
    return rep


def run_por(pid, cfgs, seed, cap=400000):
    """Unbounded exploration (all interleavings modulo independence) of the given small configurations."""
    total = Report()
    for rep in _pmap_keep(_por_job, [(pid, cfg, cap) for cfg in cfgs], seed, None):
        total.merge(rep)
    total.extra['configurations_all_interleavings'] = len(cfgs)
    return total


def replay(case):
    if case.get('mode') == 'sleep-sets':
        return {'violates': False, 'note': 'found by the all-interleavings mode: re-run the thorough check (schedules of that mode are sequences of thread ids, not replayable by the bounded explorer)'}
    """Re-execute one recorded schedule without the explorer."""
    cfg = case['config']
    prefix = [tuple(c) for c in case['schedule']]
    try:
        exe = explore.run_once(_make(cfg), prefix, None)
    except explore.ReplayDivergence as exc:
        return {'violates': False, 'diverged': f'the recorded schedule does not apply to the current code ({exc}): '
                                               'the synchronisation structure changed since the violation was recorded'}
    probs = harness.oracle(exe, cfg)
    return {'observed': harness.observe(exe), 'log': exe.harness.log, 'problems': probs,
            'trace': [(tid, op) for tid, op in exe.rt.trace], 'violates': bool(probs)}
