"""Controlled scheduler for Python threads (engine E-sched, DESIGN.md 2.1).

Model threads are real daemon OS threads that only run while they hold the
baton (one private semaphore each).  Before every visible operation the
running thread publishes (op, object) and an enabledness predicate, and hands
the baton to the thread picked by the explorer's `chooser`.

The fake `threading`, `queue` and `time` modules defined here are installed
in sys.modules only while fresh copies of valjean.cosette.{env,
backends.queue, scheduler} are imported (load_patched), so the unmodified
source of /repo's working tree runs on controlled primitives.  Anything the
fake modules do not model raises UnmodelledPrimitive with its name.
"""
import importlib
import itertools
import sys
import threading as _rt
import time as _rtime
import types

RT = None     # runtime of the execution in progress (one per process at a time)
POR = False   # True: release / notify / clock reads are scheduling points too (one object per segment)


class Abort(BaseException):
    """Raised inside model threads to unwind them at the end of an execution."""


class UnmodelledPrimitive(AttributeError):
    """The code under test uses a concurrency primitive the runtime does not control."""


class MThread:
    """Book-keeping for one model thread."""

    def __init__(self, rt, tid, name, body):
        self.rt, self.tid, self.name, self.body = rt, tid, name, body
        self.go = _rt.Semaphore(0)
        self.pending = ('begin', None)
        self.enabled_fn = _true
        self.finished = False
        self.crashed = None
        self.real = _rt.Thread(target=self._run, daemon=True)

    def _run(self):
        self.go.acquire()
        try:
            if self.rt.aborted:
                raise Abort()
            self.body()
        except Abort:
            pass
        except BaseException as exc:  # like a real thread: it dies, the others go on
            self.crashed = exc
        self.finished = True
        self.pending = None
        if not self.rt.aborted:
            self.rt.handoff(self, finishing=True)


def _true():
    return True


class Runtime:
    """One controlled execution."""

    def __init__(self, chooser, max_steps=5000):
        self.threads = []
        self.chooser = chooser
        self.current = None
        self.aborted = False
        self.done = _rt.Semaphore(0)
        self.outcome = None
        self.steps = 0
        self.max_steps = max_steps
        self.clock = 0
        self.coarse = 1
        self.subticks = 0
        self.trace = []
        self.objs = itertools.count()
        self.main = None
        self.zombies = 0

    def spawn(self, name, body):
        thr = MThread(self, len(self.threads), name, body)
        self.threads.append(thr)
        thr.real.start()
        return thr

    def me(self):
        return self.current

    def point(self, oper, enabled_fn=None):
        """Called by the running thread before a visible operation."""
        if self.aborted:
            raise Abort()
        thr = self.current
        thr.pending = oper
        thr.enabled_fn = enabled_fn or _true
        self.handoff(thr)
        if self.aborted:
            raise Abort()

    def handoff(self, thr, finishing=False):
        self.steps += 1
        enabled = [x for x in self.threads
                   if not x.finished and x.pending is not None and x.enabled_fn()]
        nxt = None
        if self.steps > self.max_steps:
            self._end(('livelock', [(x.name, x.pending) for x in self.threads if not x.finished]))
        elif not enabled:
            alive = [x for x in self.threads if not x.finished]
            if not alive:
                self._end(('quiescent', None))
            elif self.main.finished:
                self._end(('leak', [(x.name, x.pending) for x in alive]))
            else:
                self._end(('deadlock', [(x.name, x.pending) for x in alive]))
        else:
            # canonical order: the running thread first if still enabled, then ascending ids
            enabled.sort(key=lambda x: (x is not thr, x.tid))
            nxt = self.chooser(self, None if finishing else thr, enabled)
            if self.aborted:        # the chooser may end the execution (sleep-set blocked)
                nxt = None
            else:
                self.trace.append((nxt.tid, nxt.pending))
        if nxt is thr:
            return
        if nxt is not None:
            self.current = nxt
            nxt.go.release()
        if not finishing:
            thr.go.acquire()

    def _end(self, outcome):
        self.outcome = outcome
        self.aborted = True
        self.done.release()

    def end(self, outcome):
        self._end(outcome)

    def run(self, main_body):
        main = self.spawn('main', main_body)
        self.main = main
        self.current = main
        self.trace.append((main.tid, main.pending))
        main.go.release()
        self.done.acquire()
        for thr in self.threads:          # unblock everyone so that the real threads unwind and exit
            if not thr.finished:
                thr.go.release()
        for thr in self.threads:
            thr.real.join(5)
            if thr.real.is_alive():
                self.zombies += 1
        return self.outcome


# ---------------------------------------------------------------- fake primitives
class FLock:
    reentrant = False

    def __init__(self):
        self.oid = ('lock', next(RT.objs))
        self.owner = None
        self.count = 0

    def _free_for(self, thr):
        return self.owner is None or (self.reentrant and self.owner is thr)

    def acquire(self, blocking=True, timeout=-1):
        rtm = RT
        thr = rtm.me()
        if not blocking:
            rtm.point(('try-acquire', self.oid))
            if not self._free_for(thr):
                return False
        else:
            rtm.point(('acquire', self.oid), lambda: self._free_for(thr))
        self.owner = thr
        self.count += 1
        return True

    def release(self):
        if RT.aborted:      # unwinding at the end of an execution: never raise a catchable error
            return
        if self.owner is None:
            raise RuntimeError('release unlocked lock')
        if POR and not RT.aborted:
            RT.point(('release', self.oid))
        self.count -= 1
        if self.count == 0:
            self.owner = None

    __enter__ = acquire

    def __exit__(self, *exc):
        self.release()

    def locked(self):
        return self.owner is not None


class FRLock(FLock):
    reentrant = True


class FCondition:
    def __init__(self, lock=None):
        self.lock = lock if lock is not None else FRLock()
        self.oid = self.lock.oid
        self.waiters = []
        self.acquire = self.lock.acquire
        self.release = self.lock.release

    def __enter__(self):
        return self.lock.__enter__()

    def __exit__(self, *exc):
        return self.lock.__exit__(*exc)

    def wait(self, timeout=None):
        rtm = RT
        thr = rtm.me()
        if self.lock.owner is not thr:
            raise RuntimeError('cannot wait on un-acquired lock')
        if POR:
            rtm.point(('wait-release', self.oid))
        saved = self.lock.count
        self.lock.count = 0
        self.lock.owner = None
        tok = [False]
        self.waiters.append(tok)
        if timeout is None:
            rtm.point(('wait-resume', self.oid), lambda: tok[0] and self.lock._free_for(thr))
        else:
            # a timed wait can always resume (timeout elapsed) once the lock is free
            rtm.point(('wait-resume-timed', self.oid), lambda: self.lock._free_for(thr))
            if tok in self.waiters:
                self.waiters.remove(tok)
        self.lock.owner = thr
        self.lock.count = saved
        return tok[0]

    def wait_for(self, predicate, timeout=None):
        result = predicate()
        while not result:
            self.wait(timeout)
            result = predicate()
            if timeout is not None and not result:
                break
        return result

    def notify(self, n=1):
        thr = RT.me()
        if self.lock.owner is not thr:
            raise RuntimeError('cannot notify on un-acquired lock')
        if POR:
            RT.point(('notify', self.oid))
        for tok in self.waiters[:n]:
            tok[0] = True
        del self.waiters[:n]

    def notify_all(self):
        self.notify(len(self.waiters))

    notifyAll = notify_all


class FEvent:
    def __init__(self):
        self.oid = ('event', next(RT.objs))
        self.flag = False

    def is_set(self):
        return self.flag

    def set(self):
        RT.point(('ev-set', self.oid))
        self.flag = True

    def clear(self):
        RT.point(('ev-clear', self.oid))
        self.flag = False

    def wait(self, timeout=None):
        if timeout is None:
            RT.point(('ev-wait', self.oid), lambda: self.flag)
        else:
            RT.point(('ev-wait-timed', self.oid))
        return self.flag


class FSemaphore:
    def __init__(self, value=1):
        self.oid = ('sem', next(RT.objs))
        self.value = value

    def acquire(self, blocking=True, timeout=None):
        if not blocking:
            RT.point(('sem-try', self.oid))
            if self.value <= 0:
                return False
        else:
            RT.point(('sem-acquire', self.oid), lambda: self.value > 0)
        self.value -= 1
        return True

    def release(self, n=1):
        if POR:
            RT.point(('sem-release', self.oid))
        self.value += n

    __enter__ = acquire

    def __exit__(self, *exc):
        self.release()


class FEmpty(Exception):
    pass


class FFull(Exception):
    pass


class FQueue:
    """queue.Queue as atomic operations (the stdlib mutex is trusted)."""

    def __init__(self, maxsize=0):
        self.oid = ('queue', next(RT.objs))
        self.maxsize = maxsize
        self.items = []
        self.unfinished = 0

    def _room(self):
        return self.maxsize <= 0 or len(self.items) < self.maxsize

    def _insert(self, item):
        self.items.append(item)

    def _remove(self):
        return self.items.pop(0)

    def put(self, item, block=True, timeout=None):
        if block and timeout is None:
            RT.point(('put', self.oid), self._room)
        else:
            RT.point(('put-nb', self.oid))
            if not self._room():
                raise FFull()
        self._insert(item)
        self.unfinished += 1

    def put_nowait(self, item):
        return self.put(item, block=False)

    def get(self, block=True, timeout=None):
        if block and timeout is None:
            RT.point(('get', self.oid), lambda: bool(self.items))
        else:
            RT.point(('get-nb', self.oid))
            if not self.items:
                raise FEmpty()
        return self._remove()

    def get_nowait(self):
        return self.get(block=False)

    def task_done(self):
        RT.point(('task_done', self.oid))
        if self.unfinished <= 0:
            raise ValueError('task_done() called too many times')
        self.unfinished -= 1

    def join(self):
        RT.point(('qjoin', self.oid), lambda: self.unfinished == 0)

    def qsize(self):
        return len(self.items)

    def empty(self):
        return not self.items

    def full(self):
        return not self._room()


class FLifoQueue(FQueue):
    def _remove(self):
        return self.items.pop()


class FThread:
    def __init__(self, group=None, target=None, name=None, args=(), kwargs=None, *, daemon=None):
        self._target, self._args, self._kwargs = target, args, kwargs or {}
        self.name = name or f'Thread-{next(RT.objs)}'
        self.daemon = bool(daemon)
        self._m = None
        self.ident = None

    def run(self):
        if self._target:
            self._target(*self._args, **self._kwargs)

    def start(self):
        rtm = RT
        if self._m is not None:
            raise RuntimeError('threads can only be started once')
        rtm.point(('start', self.name))
        self._m = rtm.spawn(self.name, self.run)
        self._m.fthread = self
        self.ident = self._m.tid

    def join(self, timeout=None):
        mth = self._m
        if mth is None:
            raise RuntimeError('cannot join thread before it is started')
        if timeout is None:
            RT.point(('tjoin', self.name), lambda: mth.finished)
        else:
            RT.point(('tjoin-timed', self.name))

    def is_alive(self):
        return self._m is not None and not self._m.finished

    def getName(self):
        return self.name

    def setDaemon(self, val):
        self.daemon = val


def f_time():
    if POR:
        RT.point(('time', 'clock'))
    RT.subticks += 1
    if RT.subticks % RT.coarse == 0:      # coarse > 1: several calls read the same clock value (finite clock resolution)
        RT.clock += 1
    return float(RT.clock)


def f_sleep(_secs):
    RT.point(('sleep', 'clock'))
    RT.clock += 1


class _Strict(types.ModuleType):
    """Module whose unmodelled attributes fail loudly."""

    def __getattr__(self, name):
        if name.startswith('__'):
            raise AttributeError(name)
        raise UnmodelledPrimitive(f'unmodelled primitive {self.__name__}.{name}: the controlled scheduler '
                                  'does not own it, extend vfw/sched/runtime.py')


def make_fake_modules():
    fth = _Strict('threading')
    fth.Thread, fth.Lock, fth.RLock, fth.Condition = FThread, FLock, FRLock, FCondition
    fth.Event, fth.Semaphore, fth.BoundedSemaphore = FEvent, FSemaphore, FSemaphore
    fth.current_thread = lambda: getattr(RT.me(), 'fthread', RT.me())
    fth.main_thread = lambda: RT.main
    fth.get_ident = lambda: RT.me().tid
    fth.active_count = lambda: sum(1 for t in RT.threads if not t.finished)
    fth.enumerate = lambda: [t for t in RT.threads if not t.finished]
    fqu = _Strict('queue')
    fqu.Queue, fqu.LifoQueue, fqu.SimpleQueue = FQueue, FLifoQueue, FQueue
    fqu.Empty, fqu.Full = FEmpty, FFull
    ftm = _Strict('time')
    ftm.time = f_time
    ftm.monotonic = f_time
    ftm.perf_counter = _rtime.perf_counter
    ftm.process_time = _rtime.process_time
    ftm.sleep = f_sleep
    ftm.strftime, ftm.localtime, ftm.gmtime = _rtime.strftime, _rtime.localtime, _rtime.gmtime
    return fth, fqu, ftm


PATCHED = ['valjean.cosette.env', 'valjean.cosette.backends.queue', 'valjean.cosette.scheduler']


def load_patched():
    """Import fresh copies of the cosette modules bound to the fake primitives.
    The regular copies in sys.modules are left as they were."""
    import valjean.cosette.scheduler      # noqa: F401  every dependency is loaded for real first
    import valjean.cosette.backends.queue  # noqa: F401
    import valjean.cosette.env             # noqa: F401
    import valjean.cosette as pkg
    import valjean.cosette.backends as bpkg
    fth, fqu, ftm = make_fake_modules()
    saved = {n: sys.modules.pop(n) for n in PATCHED}
    real = {k: sys.modules[k] for k in ('threading', 'queue', 'time')}
    sys.modules['threading'], sys.modules['queue'], sys.modules['time'] = fth, fqu, ftm
    try:
        mods = {n: importlib.import_module(n) for n in PATCHED}
    finally:
        sys.modules.update(real)
        for name in PATCHED:
            sys.modules[name] = saved[name]
        pkg.env, pkg.scheduler, bpkg.queue = saved[PATCHED[0]], saved[PATCHED[2]], saved[PATCHED[1]]
    return mods
