"""Stateless exploration of schedules: depth-first search with replay and a
preemption bound (iterative context bounding), DESIGN.md 2.1.

`run(prefix)` replays the recorded choices, then always takes choice 0 (= no
context switch: the enabled list is in canonical order, running thread first).
For every later scheduling point each alternative is pushed if its preemption
cost stays within the bound; switches at blocking points are free.  Subtrees
rooted at different prefixes are disjoint, so a stack entry is a unit of
parallel work.
"""
import collections

from . import runtime


class ReplayDivergence(Exception):
    """Replaying a recorded prefix met a different enabled set: captured
    nondeterminism is incomplete.  Hard error, never a result."""


class Execution:
    """What one controlled execution produced."""
    __slots__ = ('rt', 'outcome', 'choices', 'rec', 'preemptions', 'switches', 'harness', 'state_hashes')


def run_once(make_harness, prefix, state_fn=None, max_steps=5000):
    """Run one execution following `prefix` (list of (idx, n_enabled)), then choice 0.
    Returns an Execution; `rec` holds per point (n_enabled, idx, cur_enabled, preemptions_before)."""
    rec = []
    pre = [0, 0]
    hashes = set() if state_fn else None
    npre = len(prefix)
    diverged = []

    def chooser(rtm, cur, enabled):
        i = len(rec)
        if i < npre:
            idx, n_exp = prefix[i]
            if idx >= len(enabled) or n_exp != len(enabled):
                diverged.append(f'point {i}: recorded {n_exp} enabled / choice {idx}, now {len(enabled)} enabled')
                rtm.end(('diverged', diverged[0]))
                return enabled[0]
        else:
            idx = 0
        cur_en = cur is not None and enabled[0] is cur
        rec.append((len(enabled), idx, cur_en, pre[0]))
        if cur_en and idx != 0:
            pre[0] += 1
        if cur is not None and enabled[idx] is not cur:
            pre[1] += 1
        if hashes is not None:
            hashes.add(state_fn(rtm, harness))
        return enabled[idx]

    rtm = runtime.Runtime(chooser, max_steps=max_steps)
    runtime.RT = rtm
    harness = make_harness(rtm)
    exe = Execution()
    exe.rt, exe.harness = rtm, harness
    exe.outcome = rtm.run(harness.main)
    if diverged:
        raise ReplayDivergence(diverged[0])
    if rtm.zombies:
        raise RuntimeError(f'{rtm.zombies} model thread(s) did not unwind at the end of an execution')
    exe.rec = rec
    exe.choices = [(r[1], r[0]) for r in rec]
    exe.preemptions, exe.switches = pre
    exe.state_hashes = hashes
    return exe


class Explorer:
    """DFS over schedules of one configuration."""

    def __init__(self, make_harness, bound, on_execution, state_fn=None, max_steps=5000):
        self.make_harness, self.bound, self.on_execution = make_harness, bound, on_execution
        self.state_fn, self.max_steps = state_fn, max_steps
        self.stack = collections.deque([[]])
        self.executions = 0
        self.points = 0
        self.states = set()

    def step(self, bfs=False):
        prefix = self.stack.popleft() if bfs else self.stack.pop()
        exe = run_once(self.make_harness, prefix, self.state_fn, self.max_steps)
        self.executions += 1
        self.points += len(exe.rec)
        if exe.state_hashes:
            self.states |= exe.state_hashes
        self.on_execution(exe)
        rec = exe.rec
        for i in range(len(prefix), len(rec)):
            n_en, _idx, cur_en, pre = rec[i]
            if n_en < 2:
                continue
            if pre + (1 if cur_en else 0) > self.bound:
                continue
            head = exe.choices[:i]
            for alt in range(1, n_en):
                self.stack.append(head + [(alt, n_en)])

    def run(self, cap=None):
        """Explore to completion; returns False if `cap` executions were reached first."""
        while self.stack:
            self.step()
            if cap and self.executions >= cap:
                return not self.stack
        return True

    def split(self, target):
        """Run breadth-first until at least `target` disjoint subtrees are pending; return them."""
        while self.stack and len(self.stack) < target:
            self.step(bfs=True)
        jobs = list(self.stack)
        self.stack.clear()
        return jobs


# ------------------------------------------------------------------ unbounded exploration with sleep sets
ALWAYS_DEPENDENT = {'start', 'tjoin', 'tjoin-timed', 'begin', 'do', 'sleep'}


def independent(op1, op2):
    """Static independence for POR mode (runtime.POR = True: every segment touches exactly one synchronisation object):
    two operations commute iff they are on different objects; thread start/join, do() entry are dependent with everything."""
    if op1[0] in ALWAYS_DEPENDENT or op2[0] in ALWAYS_DEPENDENT:
        return False
    return op1[1] != op2[1]


class SleepSetExplorer:
    """All interleavings modulo independence (sleep sets, no preemption bound).  Only sound with runtime.POR = True."""

    def __init__(self, make_harness, on_execution, max_steps=5000):
        self.make_harness, self.on_execution, self.max_steps = make_harness, on_execution, max_steps
        self.stack = [([], {})]         # (prefix of thread ids, sleep set at the end of the prefix {tid: op})
        self.executions = 0
        self.blocked = 0
        self.complete_traces = 0

    def step(self):
        prefix, sleep0 = self.stack.pop()
        rec = []                        # per point: (enabled [(tid, op)], chosen tid, sleep set before or None inside the prefix)
        state = {'sleep': dict(sleep0), 'blocked': False}

        def chooser(rtm, cur, enabled):
            i = len(rec)
            ena = [(x.tid, x.pending) for x in enabled]
            if i < len(prefix):
                thr = next((x for x in enabled if x.tid == prefix[i]), None)
                if thr is None:
                    rtm.end(('diverged', f'point {i}: thread {prefix[i]} not enabled'))
                    return enabled[0]
                rec.append((ena, thr.tid, None))
                return thr
            cand = [x for x in enabled if x.tid not in state['sleep']]
            if not cand:
                state['blocked'] = True
                rtm.end(('sleep-blocked', None))
                return enabled[0]
            thr = cand[0]
            rec.append((ena, thr.tid, dict(state['sleep'])))
            oper = thr.pending
            state['sleep'] = {t: o for t, o in state['sleep'].items() if independent(o, oper)}
            return thr

        rtm = runtime.Runtime(chooser, max_steps=self.max_steps)
        runtime.RT = rtm
        harness = self.make_harness(rtm)
        exe = Execution()
        exe.rt, exe.harness = rtm, harness
        exe.outcome = rtm.run(harness.main)
        if exe.outcome[0] == 'diverged':
            raise ReplayDivergence(exe.outcome[1])
        self.executions += 1
        if state['blocked']:
            self.blocked += 1
        else:
            self.complete_traces += 1
            exe.rec = [(len(r[0]), 0, False, 0) for r in rec]
            exe.choices = [r[1] for r in rec]
            exe.preemptions = exe.switches = 0
            exe.state_hashes = None
            self.on_execution(exe)
        for i in range(len(prefix), len(rec)):
            ena, chosen, slp = rec[i]
            if slp is None:
                continue
            explored = {chosen: dict(ena)[chosen]}
            for tid, oper in ena:
                if tid == chosen or tid in slp:
                    continue
                new_sleep = {t: o for t, o in {**slp, **explored}.items() if independent(o, oper)}
                self.stack.append(([r[1] for r in rec[:i]] + [tid], new_sleep))
                explored[tid] = oper

    def run(self, cap=None):
        while self.stack:
            self.step()
            if cap and self.executions >= cap:
                return not self.stack
        return True
