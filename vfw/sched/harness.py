"""Driver of valjean's real scheduler under the controlled runtime: probe tasks,
graph construction from a small JSON-able configuration, observation of one
execution and the oracles of C01 / C02 / C03 (DESIGN.md section 4).
"""
import copy

from valjean.cosette.task import Task, TaskStatus
from valjean.cosette.depgraph import DepGraph

from . import runtime

_MODS = None
OUTCOMES = ('ok', 'raise', 'fail', 'none', 'notpair', 'badstatus', 'badupdate', 'triple')
FINAL = (TaskStatus.DONE, TaskStatus.FAILED, TaskStatus.SKIPPED)


def mods():
    """Fresh copies of the cosette modules bound to the fake primitives (once per process)."""
    global _MODS  # pylint: disable=global-statement
    if _MODS is None:
        _MODS = runtime.load_patched()
    return _MODS


class Probe(Task):
    """Task that records what it can read about its dependencies when it starts."""

    def __init__(self, name, outcome, log, version=1):
        super().__init__(name)
        self.outcome, self.log, self.version = outcome, log, version
        self.deps = []
        self.count = 0

    def update(self):
        """The environment update of a successful execution: several keys, one nested
        mapping and one mapping shared by all tasks, so that a partial update shows."""
        return {self.name: {'payload': (self.name, self.version), 'extra': {'k': self.version, 'who': self.name}},
                'glob': {self.name: self.version}}

    def do(self, env, config):
        runtime.RT.point(('do', self.name))
        self.count += 1
        seen = {}
        for dep in self.deps:
            ent = env.get(dep.name)
            glob = env.get('glob')
            seen[dep.name] = (None if ent is None else copy.deepcopy(dict(ent)),
                              None if glob is None else glob.get(dep.name))
        self.log.append(('start', self.name, seen))
        out = self.outcome
        upd = self.update()
        self.log.append(('end', self.name))
        if out == 'ok':
            return upd, TaskStatus.DONE
        if out == 'fail':
            return upd, TaskStatus.FAILED
        if out == 'raise':
            raise RuntimeError('boom')
        if out == 'none':
            return None
        if out == 'notpair':
            return 42
        if out == 'badstatus':
            return upd, 'foo'
        if out == 'badupdate':
            return 42, TaskStatus.DONE
        if out == 'triple':
            return upd, TaskStatus.DONE, 0
        raise AssertionError(out)


class SchedHarness:
    """One scheduling run of a configuration:
       {'n', 'edges': [[i, j, 'h'|'s']] (i depends on j), 'outcomes', 'workers',
        'init': [[i, status-name, with_clocks]]}"""

    def __init__(self, cfg, rtm):
        self.cfg, self.rt = cfg, rtm
        mod = mods()
        self.log = []
        ntask = cfg['n']
        self.tasks = [Probe(f't{i}', cfg['outcomes'][i], self.log) for i in range(ntask)]
        self.hard, self.soft = DepGraph(), DepGraph()
        for tsk in self.tasks:
            self.hard.add_node(tsk)
            self.soft.add_node(tsk)
        for i, j, kind in cfg['edges']:
            (self.hard if kind == 'h' else self.soft).add_dependency(self.tasks[i], on=self.tasks[j])
            self.tasks[i].deps.append(self.tasks[j])
        envmod = mod['valjean.cosette.env']
        self.env = envmod.Env()
        for i, status, clocks in cfg.get('init', ()):
            ent = {'status': TaskStatus[status], 'payload': (f't{i}', 0)}
            if clocks:
                ent['start_clock'], ent['end_clock'] = -2.0 - i, -1.0 - i
            self.env[f't{i}'] = ent
        self.backend = mod['valjean.cosette.backends.queue'].QueueScheduling(cfg['workers'])
        self.res = {}

    def main(self):
        mod = mods()
        sched = mod['valjean.cosette.scheduler'].Scheduler(hard_graph=self.hard, soft_graph=self.soft,
                                                            backend=self.backend)
        try:
            self.res['env'] = sched.schedule(env=self.env)
            for _ in range(self.cfg.get('calls', 1) - 1):       # the same Scheduler / backend object used again
                self.res['env'] = sched.schedule(env=self.env)
        except Exception as exc:  # pylint: disable=broad-except
            self.res['exc'] = type(exc).__name__
        rtm = self.rt
        self.res['alive'] = [t.name for t in rtm.threads if not t.finished and t is not rtm.me()]
        que = self.backend.queue
        self.res['queue'] = (len(que.items), que.unfinished)


def state_fn(rtm, har):
    """Abstract global state at a scheduling point (used only to COUNT distinct states)."""
    thr = tuple((t.pending if t.pending is None else t.pending[0]) for t in rtm.threads)
    sts = tuple((k, v.get('status'), 'payload' in v, 'end_clock' in v) for k, v in har.env.dictionary.items()
                if isinstance(v, dict) and 'status' in v)
    que = har.backend.queue
    return hash((thr, sts, tuple(getattr(x, 'name', None) for x in que.items), que.unfinished))


# ------------------------------------------------------------------ reference model (C02)
def reference(cfg):
    """Final status and execution count of every task, from the graph and the outcomes only."""
    ntask = cfg['n']
    deps = {i: [] for i in range(ntask)}
    for i, j, kind in cfg['edges']:
        deps[i].append((j, kind))
    final, count = {}, {}
    todo = list(range(ntask))
    while todo:
        progress = False
        for i in list(todo):
            if all(j in final for j, _ in deps[i]):
                if any(kind == 'h' and final[j] in ('FAILED', 'SKIPPED') for j, kind in deps[i]):
                    final[i], count[i] = 'SKIPPED', 0
                else:
                    final[i], count[i] = ('DONE' if cfg['outcomes'][i] == 'ok' else 'FAILED'), 1
                todo.remove(i)
                progress = True
        if not progress:
            return None, None       # cyclic: no reference
    return final, count


def status_name(ent):
    sta = ent.get('status') if isinstance(ent, dict) else None
    return sta.name if isinstance(sta, TaskStatus) else repr(sta)


def observe(exe):
    """Compact, hashable observation of one execution (also the 'distinct outcomes' key)."""
    har = exe.harness
    env = har.env.dictionary
    statuses = tuple((t.name, status_name(env.get(t.name, {}))) for t in har.tasks)
    counts = tuple(t.count for t in har.tasks)
    return (exe.outcome[0], har.res.get('exc'), statuses, counts, tuple(har.res.get('alive', ('?',))),
            har.res.get('queue'))


def oracle(exe, cfg):
    """All violated clauses of C01, C02, C03 on one execution: list of (key, what)."""
    har = exe.harness
    bad = []
    wtag = f"w{cfg['workers']}"
    # ---- C03: termination, no worker left, queue empty
    kind = exe.outcome[0]
    if kind in ('deadlock', 'livelock', 'leak'):
        bad.append((f'C03|{kind}|{_shape(cfg)}', f'{kind}: {exe.outcome[1]}'))
    else:
        if har.res.get('alive'):
            bad.append((f'C03|alive-at-return|{_shape(cfg)}', f"threads alive when schedule() came back: {har.res['alive']}"))
        que = har.res.get('queue')
        # the stop sentinels are never task_done()'d: `unfinished` legitimately equals their number
        if que is not None and (que[0] != 0 or que[1] > cfg['workers'] * cfg.get('calls', 1)):
            bad.append((f'C03|queue-not-empty|{_shape(cfg)}', f"queue (items, unfinished) = {que} at return"))
    for thr in exe.rt.threads:
        if thr.crashed is not None and thr is not exe.rt.main and kind != 'quiescent':
            # a worker killed by an exception is reported together with the hang it causes; alone it is not a violation of C03
            bad.append((f'C03|worker-died|{type(thr.crashed).__name__}', f'worker {thr.name} died: {thr.crashed!r}'))
        if thr.crashed is not None and thr is exe.rt.main:
            bad.append((f'HARNESS|main-died|{type(thr.crashed).__name__}', f'main died: {thr.crashed!r}'))
    # ---- C01: what a task sees when it starts
    ended = set()
    for evt in har.log:
        if evt[0] == 'end':
            ended.add(evt[1])
            continue
        _, name, seen = evt
        for dname, (ent, glob) in seen.items():
            dep = har.tasks[int(dname[1:])]
            sta = None if ent is None else ent.get('status')
            if sta not in FINAL:
                bad.append((f'C01|dep-not-final|{wtag}', f'{name} started while dependency {dname} was {status_name(ent or {})}'))
                continue
            final_now = har.env.dictionary.get(dname, {}).get('status')
            if kind == 'quiescent' and final_now != sta:
                bad.append((f'C01|dep-status-not-final|{wtag}',
                            f'{name} started when {dname} showed {status_name(ent)}, but {dname} ended {status_name({"status": final_now})}: '
                            'the dependency had not reached its final state'))
            if dep.count and dname not in ended:
                bad.append((f'C01|dep-still-running|{wtag}', f'{name} started before {dname} finished do()'))
            if sta == TaskStatus.DONE and dep.outcome == 'ok':
                exp = dep.update()
                if ent.get('payload') != exp[dname]['payload'] or ent.get('extra') != exp[dname]['extra'] \
                        or glob != exp['glob'][dname]:
                    bad.append((f'C01|update-not-readable|{wtag}',
                                f'{name} started, {dname} is DONE but its update is not (fully) readable: '
                                f'entry={ent!r} glob={glob!r}'))
    # ---- C02: final status map and execution counts equal the reference
    if ('init' not in cfg or not cfg['init']) and cfg.get('calls', 1) == 1:
        final, count = reference(cfg)
        if final is not None and kind == 'quiescent' and 'env' in har.res:
            env = har.env.dictionary
            for i, tsk in enumerate(har.tasks):
                got = status_name(env.get(tsk.name, {}))
                if got != final[i]:
                    bad.append((f'C02|status|{cfg["outcomes"][i]}|exp={final[i]}|got={got}',
                                f'{tsk.name} ended {got}, reference says {final[i]}'))
                if tsk.count != count[i]:
                    bad.append((f'C02|exec-count|exp={count[i]}|got={tsk.count}',
                                f'{tsk.name} executed {tsk.count} times, reference says {count[i]}'))
        elif final is not None and 'exc' in har.res:
            bad.append((f'C02|schedule-raised|{har.res["exc"]}', f'schedule() raised {har.res["exc"]} on an acyclic graph'))
    return bad


def _shape(cfg):
    kinds = ''.join(sorted(set(k for _, _, k in cfg['edges']))) or '-'
    outs = ','.join(sorted(set(cfg['outcomes'])))
    extra = ''
    if cfg.get('init'):
        extra = '|init=' + ','.join(sorted(set(s for _, s, _ in cfg['init'])))
    if cfg.get('cyclic'):
        extra += '|cyclic'
    if cfg.get('calls', 1) > 1:
        extra += f"|calls={cfg['calls']}"
    return f"n{cfg['n']}|{kinds}|{outs}|w{cfg['workers']}{extra}"
