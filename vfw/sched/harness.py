"""Driver of valjean's real scheduler under the controlled runtime: probe tasks,
graph construction from a small JSON-able configuration, observation of one
execution and the oracles of C01 / C02 / C03 (DESIGN.md section 4).
"""
import copy

from valjean.cosette.task import Task, TaskStatus
from valjean.cosette.depgraph import DepGraph

from . import runtime

_MODS = None
OUTCOMES = ('ok', 'raise', 'fail', 'none', 'notpair', 'badstatus', 'badupdate', 'triple', 'clobber', 'clobber-next', 'badnested', 'nonfinal', 'pending', 'emptyupdate', 'okstatus')
FINAL = (TaskStatus.DONE, TaskStatus.FAILED, TaskStatus.SKIPPED)


def mods():
    """Fresh copies of the cosette modules bound to the fake primitives (once per process)."""
    global _MODS  # pylint: disable=global-statement
    if _MODS is None:
        _MODS = runtime.load_patched()
    return _MODS


class Probe(Task):
    """Task that records what it can read about its dependencies when it starts."""

    def __init__(self, name, outcome, log, version=1):
        super().__init__(name)
        self.outcome, self.log, self.version = outcome, log, version
        self.deps = []
        self.count = 0

    def update(self):
        """The environment update of a successful execution: several keys, one nested
        mapping and one mapping shared by all tasks, so that a partial update shows."""
        return {self.name: {'payload': (self.name, self.version), 'extra': {'k': self.version, 'who': self.name}},
                'glob': {self.name: self.version}}

    def do(self, env, config):
        runtime.RT.point(('do', self.name))
        self.count += 1
        seen = {}
        for dep in self.deps:
            ent = env.get(dep.name)
            glob = env.get('glob')
            seen[dep.name] = (None if ent is None else copy.deepcopy(dict(ent)),
                              None if glob is None else glob.get(dep.name))
        self.log.append(('start', self.name, seen))
        out = self.outcome
        upd = self.update()
        self.log.append(('end', self.name))
        if out == 'ok':
            return upd, TaskStatus.DONE
        if out == 'okstatus':
            # a successful task whose update carries its own entry FIRST and with the status in it (what a task that
            # re-publishes an entry restored from an earlier run returns): an apply() that publishes the update piecewise
            # shows the task DONE before the rest of its update is there
            own = dict(upd[self.name], status=TaskStatus.DONE)
            return {self.name: own, 'glob': upd['glob'], self.name + '_results': {'k': self.version}}, TaskStatus.DONE
        if out == 'fail':
            return upd, TaskStatus.FAILED
        if out == 'raise':
            raise RuntimeError('boom')
        if out == 'none':
            return None
        if out == 'notpair':
            return 42
        if out == 'badstatus':
            return upd, 'foo'
        if out == 'badupdate':
            return 42, TaskStatus.DONE
        if out == 'triple':
            return upd, TaskStatus.DONE, 0
        if out in ('nonfinal', 'pending'):
            # a genuine TaskStatus, but not one a finished task can have
            return upd, (TaskStatus.WAITING if out == 'nonfinal' else TaskStatus.PENDING)
        if out == 'emptyupdate':
            return [], TaskStatus.DONE          # not a mapping either, but falsy
        if out == 'badnested':
            # a mapping all the way down, but it asks to merge a dictionary into a value that is not one (the start clock):
            # apply() fails half-way
            return {self.name: {'extra': {'k': 0}, 'start_clock': {'x': 1}}, 'glob': {self.name: self.version}}, TaskStatus.DONE
        if out == 'clobber-next':
            # ... or the entry of ANOTHER task (t<i+1>, cyclically)
            num = int(self.name[1:])
            other = f't{num + 1}' if f't{num + 1}' in getattr(env, 'dictionary', env) or num == 0 else 't0'
            return {other: 5}, TaskStatus.DONE
        if out == 'clobber':
            # a well-formed pair whose update replaces the task's own entry by something that is not a mapping
            return {self.name: 5}, TaskStatus.DONE
        raise AssertionError(out)


class SchedHarness:
    """One scheduling run of a configuration:
       {'n', 'edges': [[i, j, 'h'|'s']] (i depends on j), 'outcomes', 'workers',
        'init': [[i, status-name, with_clocks]]}"""

    def __init__(self, cfg, rtm):
        self.cfg, self.rt = cfg, rtm
        mod = mods()
        self.log = []
        ntask = cfg['n']
        self.tasks = [Probe(f't{i}', cfg['outcomes'][i], self.log) for i in range(ntask)]
        self.hard, self.soft = DepGraph(), DepGraph()
        nest = cfg.get('nest')
        if nest:
            self._build_nested(cfg, nest)
        else:
            for tsk in self.tasks:
                self.hard.add_node(tsk)
                self.soft.add_node(tsk)
            for i, j, kind in cfg['edges']:
                (self.hard if kind == 'h' else self.soft).add_dependency(self.tasks[i], on=self.tasks[j])
                self.tasks[i].deps.append(self.tasks[j])
        envmod = mod['valjean.cosette.env']
        self.env = envmod.Env()
        for i, status, clocks in cfg.get('init', ()):
            ent = {'status': TaskStatus[status], 'payload': (f't{i}', 0)}
            if clocks:
                ent['start_clock'], ent['end_clock'] = -2.0 - i, -1.0 - i
            self.env[f't{i}'] = ent
        self.backend = mod['valjean.cosette.backends.queue'].QueueScheduling(cfg['workers'])
        self.res = {}

    def _build_nested(self, cfg, nest):
        """Hard graph with the tasks `nest['members']` inside one DepGraph used as a node (a documented feature): hard edges
        between members live inside it, an outer task depending on a member depends on the graph-node, a member depending on an
        outer task makes the graph-node depend on it.  `nest['first']`: is the graph-node added before or after the plain tasks."""
        members = set(nest['members'])
        inner = DepGraph()
        for i in sorted(members):
            inner.add_node(self.tasks[i])
        outer = [self.tasks[i] for i in range(cfg['n']) if i not in members]
        for node in ([inner] + outer) if nest.get('first') else (outer + [inner]):
            self.hard.add_node(node)
        for tsk in self.tasks:
            self.soft.add_node(tsk)
        for i, j, kind in cfg['edges']:
            if kind == 's':
                self.soft.add_dependency(self.tasks[i], on=self.tasks[j])
            elif i in members and j in members:
                inner.add_dependency(self.tasks[i], on=self.tasks[j])
            else:
                self.hard.add_dependency(inner if i in members else self.tasks[i], on=inner if j in members else self.tasks[j])
        # what each task may look at when it starts = its dependencies in the flattened graph (expand_nested)
        for i, j, _kind in expand_nested(cfg):
            if self.tasks[j] not in self.tasks[i].deps:
                self.tasks[i].deps.append(self.tasks[j])

    def main(self):
        mod = mods()
        sched = mod['valjean.cosette.scheduler'].Scheduler(hard_graph=self.hard, soft_graph=self.soft,
                                                            backend=self.backend)
        try:
            self.res['env'] = sched.schedule(env=self.env)
            for _ in range(self.cfg.get('calls', 1) - 1):       # the same Scheduler / backend object used again
                self.res['env'] = sched.schedule(env=self.env)
            if 'second' in self.cfg:
                # the same backend object and the same task objects, another graph, a fresh environment
                env1 = self.env.dictionary
                self.res['first'] = ([status_name(env1.get(t.name, {})) for t in self.tasks], [t.count for t in self.tasks])
                del self.log[:]
                if self.cfg['second'].get('same_objects'):
                    # the very same graph objects handed to a second Scheduler: building a scheduler must not have changed them
                    for tsk in self.tasks:
                        tsk.count = 0
                else:
                    self.hard, self.soft = DepGraph(), DepGraph()
                    for tsk in self.tasks:
                        tsk.count, tsk.deps = 0, []
                        self.hard.add_node(tsk)
                        self.soft.add_node(tsk)
                    for i, j, kind in self.cfg['second']['edges']:
                        (self.hard if kind == 'h' else self.soft).add_dependency(self.tasks[i], on=self.tasks[j])
                        self.tasks[i].deps.append(self.tasks[j])
                self.env = mod['valjean.cosette.env'].Env()
                sched = mod['valjean.cosette.scheduler'].Scheduler(hard_graph=self.hard, soft_graph=self.soft,
                                                                    backend=self.backend)
                self.res['env'] = sched.schedule(env=self.env)
        except Exception as exc:  # pylint: disable=broad-except
            self.res['exc'] = type(exc).__name__
        rtm = self.rt
        self.res['alive'] = [t.name for t in rtm.threads if not t.finished and t is not rtm.me()]
        que = self.backend.queue
        self.res['queue'] = (len(que.items), que.unfinished)


def state_fn(rtm, har):
    """Abstract global state at a scheduling point (used only to COUNT distinct states)."""
    thr = tuple((t.pending if t.pending is None else t.pending[0]) for t in rtm.threads)
    sts = tuple((k, v.get('status'), 'payload' in v, 'end_clock' in v) for k, v in har.env.dictionary.items()
                if isinstance(v, dict) and 'status' in v)
    que = har.backend.queue
    return hash((thr, sts, tuple(getattr(x, 'name', None) for x in que.items), que.unfinished))


def expand_nested(cfg):
    """Edges between tasks meant by a configuration with a graph-node: an outer task that depends on the graph-node depends on
    the members nobody inside depends on (they come last); the members without inner dependencies (they come first) depend on
    whatever the graph-node depends on."""
    nest = cfg.get('nest')
    if not nest:
        return [tuple(e) for e in cfg['edges']]
    members = set(nest['members'])
    inner = [(i, j) for i, j, k in cfg['edges'] if k == 'h' and i in members and j in members]
    last = [m for m in sorted(members) if not any(j == m for _, j in inner)]
    first = [m for m in sorted(members) if not any(i == m for i, _ in inner)]
    out = []
    for i, j, kind in cfg['edges']:
        if kind == 's' or (i in members) == (j in members):
            out.append((i, j, kind))
        elif j in members:                       # outer i depends on the graph-node
            out += [(i, m, 'h') for m in last]
        else:                                    # the graph-node depends on outer j
            out += [(m, j, 'h') for m in first]
    return sorted(set(out))


# ------------------------------------------------------------------ reference model (C02)
def reference(cfg):
    """Final status and execution count of every task, from the graph and the outcomes only."""
    ntask = cfg['n']
    deps = {i: [] for i in range(ntask)}
    for i, j, kind in expand_nested(cfg):
        deps[i].append((j, kind))
    final, count = {}, {}
    todo = list(range(ntask))
    while todo:
        progress = False
        for i in list(todo):
            if all(j in final for j, _ in deps[i]):
                if any(kind == 'h' and final[j] in ('FAILED', 'SKIPPED') for j, kind in deps[i]):
                    final[i], count[i] = 'SKIPPED', 0
                else:
                    final[i], count[i] = ('DONE' if cfg['outcomes'][i] in ('ok', 'okstatus') else 'FAILED'), 1
                todo.remove(i)
                progress = True
        if not progress:
            return None, None       # cyclic: no reference
    return final, count


def status_name(ent):
    sta = ent.get('status') if isinstance(ent, dict) else None
    return sta.name if isinstance(sta, TaskStatus) else repr(sta)


def observe(exe):
    """Compact, hashable observation of one execution (also the 'distinct outcomes' key)."""
    har = exe.harness
    env = har.env.dictionary
    statuses = tuple((t.name, status_name(env.get(t.name, {}))) for t in har.tasks)
    counts = tuple(t.count for t in har.tasks)
    return (exe.outcome[0], har.res.get('exc'), statuses, counts, tuple(har.res.get('alive', ('?',))),
            har.res.get('queue'))


def oracle(exe, cfg):
    """All violated clauses of C01, C02, C03 on one execution: list of (key, what)."""
    har = exe.harness
    bad = []
    wtag = f"w{cfg['workers']}"
    # ---- C03: termination, no worker left, queue empty
    kind = exe.outcome[0]
    if kind in ('deadlock', 'livelock', 'leak'):
        bad.append((f'C03|{kind}|{_shape(cfg)}', f'{kind}: {exe.outcome[1]}'))
    else:
        if har.res.get('alive'):
            bad.append((f'C03|alive-at-return|{_shape(cfg)}', f"threads alive when schedule() came back: {har.res['alive']}"))
        que = har.res.get('queue')
        # the stop sentinels are never task_done()'d: `unfinished` legitimately equals their number
        if que is not None and (que[0] != 0 or que[1] > cfg['workers'] * (cfg.get('calls', 1) + ('second' in cfg))):
            bad.append((f'C03|queue-not-empty|{_shape(cfg)}', f"queue (items, unfinished) = {que} at return"))
    for thr in exe.rt.threads:
        if thr.crashed is not None and thr is not exe.rt.main and kind != 'quiescent':
            # a worker killed by an exception is reported together with the hang it causes; alone it is not a violation of C03
            bad.append((f'C03|worker-died|{type(thr.crashed).__name__}', f'worker {thr.name} died: {thr.crashed!r}'))
        if thr.crashed is not None and thr is exe.rt.main:
            bad.append((f'HARNESS|main-died|{type(thr.crashed).__name__}', f'main died: {thr.crashed!r}'))
    # ---- C01: what a task sees when it starts
    ended = set()
    for evt in har.log:
        if evt[0] == 'end':
            ended.add(evt[1])
            continue
        _, name, seen = evt
        for dname, (ent, glob) in seen.items():
            dep = har.tasks[int(dname[1:])]
            sta = None if ent is None else ent.get('status')
            if sta not in FINAL:
                bad.append((f'C01|dep-not-final|{wtag}', f'{name} started while dependency {dname} was {status_name(ent or {})}'))
                continue
            final_ent = har.env.dictionary.get(dname, {})
            final_now = final_ent.get('status') if isinstance(final_ent, dict) else None
            if kind == 'quiescent' and final_now != sta:
                bad.append((f'C01|dep-status-not-final|{wtag}',
                            f'{name} started when {dname} showed {status_name(ent)}, but {dname} ended {status_name({"status": final_now})}: '
                            'the dependency had not reached its final state'))
            if dep.count and dname not in ended:
                bad.append((f'C01|dep-still-running|{wtag}', f'{name} started before {dname} finished do()'))
            if sta == TaskStatus.DONE and dep.outcome in ('ok', 'okstatus'):
                exp = dep.update()
                if ent.get('payload') != exp[dname]['payload'] or ent.get('extra') != exp[dname]['extra'] \
                        or glob != exp['glob'][dname]:
                    bad.append((f'C01|update-not-readable|{wtag}',
                                f'{name} started, {dname} is DONE but its update is not (fully) readable: '
                                f'entry={ent!r} glob={glob!r}'))
    # ---- C02: final status map and execution counts equal the reference
    if 'second' in cfg and 'first' in har.res:
        final, count = reference(cfg)
        if final is not None:
            for i, tsk in enumerate(har.tasks):
                if har.res['first'][0][i] != final[i] or har.res['first'][1][i] != count[i]:
                    bad.append((f'C02|status|first-run|exp={final[i]}|got={har.res["first"][0][i]}',
                                f'first run: {tsk.name} ended {har.res["first"][0][i]} after {har.res["first"][1][i]} execution(s), '
                                f'reference says {final[i]} / {count[i]}'))
    if ('init' not in cfg or not cfg['init']) and cfg.get('calls', 1) == 1:
        refcfg = dict(cfg, edges=cfg['second']['edges']) if 'second' in cfg else cfg
        rtag = ('|same-graph-objects-second-scheduler' if cfg['second'].get('same_objects') else '|second-graph-same-backend') if 'second' in cfg else ''
        final, count = reference(refcfg)
        if final is not None and kind == 'quiescent' and 'env' in har.res:
            env = har.env.dictionary
            for i, tsk in enumerate(har.tasks):
                got = status_name(env.get(tsk.name, {}))
                if got != final[i]:
                    bad.append((f'C02|status|{cfg["outcomes"][i]}|exp={final[i]}|got={got}{rtag}',
                                f'{tsk.name} ended {got}, reference says {final[i]}'))
                if tsk.count != count[i]:
                    bad.append((f'C02|exec-count|exp={count[i]}|got={tsk.count}{rtag}',
                                f'{tsk.name} executed {tsk.count} times, reference says {count[i]}'))
        elif final is not None and 'exc' in har.res:
            bad.append((f'C02|schedule-raised|{har.res["exc"]}', f'schedule() raised {har.res["exc"]} on an acyclic graph'))
    return bad


def _shape(cfg):
    kinds = ''.join(sorted(set(k for _, _, k in cfg['edges']))) or '-'
    outs = ','.join(sorted(set(cfg['outcomes'])))
    extra = ''
    if cfg.get('init'):
        extra = '|init=' + ','.join(sorted(set(s for _, s, _ in cfg['init'])))
    if cfg.get('cyclic'):
        extra += '|cyclic'
    if cfg.get('calls', 1) > 1:
        extra += f"|calls={cfg['calls']}"
    if 'second' in cfg:
        extra += '|second-graph'
    if cfg.get('nest'):
        extra += '|graph-node'

    return f"n{cfg['n']}|{kinds}|{outs}|w{cfg['workers']}{extra}"
