"""Self-test of the controlled scheduler: one recorded schedule replayed twice in this
process and once in a second process must give byte-identical observations and traces."""
import hashlib
import json
import subprocess
import sys

from . import check, configs as C, explore, harness

CFG = C.cfg(3, C.TRI3, ['ok', 'badupdate', 'ok'], 2)


def one(prefix):
    exe = explore.run_once(check._make(CFG), prefix, harness.state_fn)  # pylint: disable=protected-access
    blob = json.dumps({'obs': harness.observe(exe), 'log': exe.harness.log, 'trace': exe.rt.trace,
                       'choices': exe.choices}, default=repr, sort_keys=True)
    return exe, hashlib.sha1(blob.encode()).hexdigest()


def pick_schedule():
    """A schedule with two preemptions: the first found by the explorer."""
    found = []
    exp = explore.Explorer(check._make(CFG), 2, lambda exe: found.append(exe.choices) if exe.preemptions == 2 and not found else None)  # pylint: disable=protected-access
    while exp.stack and not found:
        exp.step()
    return found[0]


def main(child=False):
    sched = pick_schedule()
    _, h1 = one(sched)
    _, h2 = one(sched)
    if child:
        print(h1)
        return 0
    out = subprocess.run([sys.executable, '-W', 'ignore', '-c',
                          'import logging, sys; logging.disable(50); from vfw.sched import determinism; sys.exit(determinism.main(True))'],
                         capture_output=True, text=True, check=False)
    h3 = out.stdout.strip().splitlines()[-1] if out.stdout.strip() else 'no output: ' + out.stderr[-300:]
    good = h1 == h2 == h3
    print(f'sched determinism: schedule of {len(sched)} points, hashes {h1[:10]} {h2[:10]} {h3[:10]} ->', 'ok' if good else 'MISMATCH')
    # divergence on a corrupted prefix must be a hard error
    bad = list(sched)
    bad[len(bad) // 2] = (bad[len(bad) // 2][0], bad[len(bad) // 2][1] + 1)
    try:
        one(bad)
        print('divergence check: corrupted prefix was NOT detected')
        good = False
    except explore.ReplayDivergence:
        print('divergence check: corrupted prefix raises ReplayDivergence -> ok')
    return 0 if good else 1
