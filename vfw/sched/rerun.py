"""Driver for C04: one run of the real scheduler on an environment carried over from earlier
runs (only DONE entries, merged the documented way), under the controlled runtime."""
import copy

from valjean.cosette.task import Task, TaskStatus
from valjean.cosette.depgraph import DepGraph

from . import runtime
from .harness import mods


class RerunProbe(Task):
    """Returns a versioned payload and records which payload of each dependency it saw."""

    def __init__(self, name, outcome, version):
        super().__init__(name)
        self.outcome, self.version = outcome, version
        self.deps = []
        self.count = 0

    def do(self, env, config):
        runtime.RT.point(('do', self.name))
        self.count += 1
        inputs = {}
        for dep in self.deps:
            ent = env.get(dep.name) or {}
            inputs[dep.name] = ent.get('payload')
        upd = {self.name: {'payload': (self.name, self.version), 'inputs': inputs}}
        if self.outcome == 'ok':
            return upd, TaskStatus.DONE
        if self.outcome == 'fail':
            return upd, TaskStatus.FAILED
        raise RuntimeError('boom')


class RerunHarness:
    """cfg = {'n', 'edges': [[i, j, 'h'|'s']], 'outcomes': [...], 'workers', 'version': run index,
              'carried': {task name: entry dict with status DONE} (what the documented merge keeps),
              'clock0': first clock value of this run, 'coarse': ticks per clock value}"""

    def __init__(self, cfg, rtm):
        self.cfg, self.rt = cfg, rtm
        mod = mods()
        rtm.clock = cfg.get('clock0', 0)
        rtm.coarse = cfg.get('coarse', 1)
        ntask = cfg['n']
        self.tasks = [RerunProbe(f't{i}', cfg['outcomes'][i], cfg['version']) for i in range(ntask)]
        self.hard, self.soft = DepGraph(), DepGraph()
        for tsk in self.tasks:
            self.hard.add_node(tsk)
            self.soft.add_node(tsk)
        for i, j, kind in cfg['edges']:
            (self.hard if kind == 'h' else self.soft).add_dependency(self.tasks[i], on=self.tasks[j])
            self.tasks[i].deps.append(self.tasks[j])
        envmod = mod['valjean.cosette.env']
        old = envmod.Env()
        for name, ent in cfg.get('carried', {}).items():
            old[name] = copy.deepcopy(ent)
        # a non-DONE entry must be dropped by the documented merge: add one decoy to exercise it
        self.entering = {name: copy.deepcopy(ent) for name, ent in cfg.get('carried', {}).items()}
        self.env = envmod.Env()
        self.env.merge_done_tasks(old)
        self.backend = mod['valjean.cosette.backends.queue'].QueueScheduling(cfg['workers'])
        self.res = {}

    def main(self):
        mod = mods()
        sched = mod['valjean.cosette.scheduler'].Scheduler(hard_graph=self.hard, soft_graph=self.soft, backend=self.backend)
        try:
            self.res['env'] = sched.schedule(env=self.env)
        except Exception as exc:  # pylint: disable=broad-except
            self.res['exc'] = type(exc).__name__ + ': ' + str(exc)[:80]


def final_entries(har):
    """Plain copy of the per-task entries at the end of the run."""
    out = {}
    for tsk in har.tasks:
        ent = har.env.dictionary.get(tsk.name)
        if ent is not None:
            out[tsk.name] = copy.deepcopy({k: v for k, v in ent.items()})
    return out


def deps_of(cfg):
    deps = {i: [] for i in range(cfg['n'])}
    for i, j, kind in cfg['edges']:
        deps[i].append((j, kind))
    return deps


def transitive(cfg, i):
    deps = deps_of(cfg)
    seen, todo = set(), [i]
    while todo:
        cur = todo.pop()
        for j, _ in deps[cur]:
            if j not in seen:
                seen.add(j)
                todo.append(j)
    return seen


def oracle(exe, cfg):
    """Clauses of C04 on the environment at the end of one run: list of (key, what)."""
    har = exe.harness
    bad = []
    if exe.outcome[0] != 'quiescent' or 'env' not in har.res:
        bad.append((f'C04|run-did-not-complete|{exe.outcome[0]}', f'run ended {exe.outcome} / {har.res.get("exc")}'))
        return bad
    ents = final_entries(har)
    deps = deps_of(cfg)
    shape = 'edges=' + ''.join(k for _, _, k in cfg['edges'])

    def status(i):
        return ents.get(f't{i}', {}).get('status')

    for i, tsk in enumerate(har.tasks):
        ent = ents.get(tsk.name, {})
        if status(i) == TaskStatus.DONE:
            for j, kind in deps[i]:
                dent = ents.get(f't{j}', {})
                if kind == 'h' and status(j) in (TaskStatus.FAILED, TaskStatus.SKIPPED):
                    bad.append((f'C04|done-with-failed-hard-dep|executed={tsk.count}|{shape}',
                                f'{tsk.name} is DONE (executed {tsk.count}x in this run) although its hard dependency t{j} is {status(j).name}'))
                if status(j) == TaskStatus.DONE:
                    dend, tstart = dent.get('end_clock'), ent.get('start_clock')
                    if dend is None or tstart is None or dend > tstart:
                        bad.append((f'C04|stale-done|dep-executed={har.tasks[j].count}|task-executed={tsk.count}|{kind}|{shape}',
                                    f'{tsk.name} is DONE with start clock {tstart} but its DONE {"hard" if kind == "h" else "soft"} dependency t{j} '
                                    f'finished at {dend} (t{j} executed {har.tasks[j].count}x, {tsk.name} {tsk.count}x in this run); '
                                    f'{tsk.name} used inputs {ent.get("inputs")}, t{j} now holds {dent.get("payload")}'))
        # a DONE task whose whole dependency cone was DONE and untouched must not run nor change
        before = har.entering.get(tsk.name)
        if before is not None and before.get('status') == TaskStatus.DONE:
            cone = transitive(cfg, i)
            if all(har.entering.get(f't{j}', {}).get('status') == TaskStatus.DONE for j in cone) \
                    and all(har.tasks[j].count == 0 for j in cone):
                if tsk.count != 0:
                    bad.append((f'C04|needless-rerun|{shape}', f'{tsk.name} was DONE with an untouched DONE dependency cone but was executed {tsk.count}x'))
                elif ent != before:
                    bad.append((f'C04|entry-touched|{shape}', f'{tsk.name} was not executed but its entry changed from {before} to {ent}'))
        if tsk.count > 1:
            bad.append((f'C04|executed-twice|{shape}', f'{tsk.name} executed {tsk.count}x in one run'))
    return bad


def canon_state(ents, ntask):
    """Canonical persisted state after a run: what the documented merge would carry (DONE entries),
    with clocks replaced by their ranks.  Returns (hashable key, carried dict, next clock)."""
    clocks = sorted({v for e in ents.values() for k, v in e.items() if k.endswith('_clock') and v is not None})
    rank = {c: float(r) for r, c in enumerate(clocks)}
    carried = {}
    for i in range(ntask):
        ent = ents.get(f't{i}')
        if ent is None or ent.get('status') != TaskStatus.DONE:
            continue
        new = dict(ent)
        for key in ('start_clock', 'end_clock'):
            if new.get(key) is not None:
                new[key] = rank[new[key]]
        carried[f't{i}'] = new
    key = tuple((name, ent.get('start_clock'), ent.get('end_clock'), ent.get('payload'), tuple(sorted((ent.get('inputs') or {}).items())))
                for name, ent in sorted(carried.items()))
    statuses = tuple((f't{i}', getattr(ents.get(f't{i}', {}).get('status'), 'name', None)) for i in range(ntask))
    return (key, statuses), carried, float(len(clocks))
