"""Configuration alphabets of the scheduler checks (DESIGN.md section 4)."""
import itertools

BAD = ('raise', 'fail', 'none', 'notpair', 'badstatus', 'badupdate', 'triple', 'clobber', 'badnested', 'nonfinal')
ALL = ('ok',) + BAD


def cfg(n, edges, outcomes, workers, init=None, cyclic=False, calls=1, second=None, nest=None):
    out = {'n': n, 'edges': [list(e) for e in edges], 'outcomes': list(outcomes), 'workers': workers}
    if init:
        out['init'] = [list(i) for i in init]
    if cyclic:
        out['cyclic'] = True
    if calls > 1:
        out['calls'] = calls
    if second == 'same':
        out['second'] = {'edges': [list(e) for e in edges], 'same_objects': True}   # a second Scheduler built from the SAME graph objects
    elif second is not None:
        out['second'] = {'edges': [list(e) for e in second]}       # second schedule() on the same backend: other graph, fresh Env
    if nest is not None:
        out['nest'] = {'members': list(nest[0]), 'first': bool(nest[1])}   # tasks inside a DepGraph used as a node of the hard graph
    return out


def forward_dags(n, kinds='hs', min_edges=1):
    """Every DAG on tasks 0..n-1 whose edges go from a later to an earlier task (submission
    order preserving), every edge hard or soft."""
    pairs = [(i, j) for i in range(n) for j in range(i)]
    for mask in itertools.product((None,) + tuple(kinds), repeat=len(pairs)):
        edges = [(i, j, k) for (i, j), k in zip(pairs, mask) if k]
        if len(edges) >= min_edges:
            yield edges


def backward_variants(edges, n):
    """The same shape with the task indices reversed: dependencies are then submitted AFTER
    their dependents, so the master meets a dependent before its dependency exists."""
    return [(n - 1 - i, n - 1 - j, k) for i, j, k in edges]


CHAIN2 = [(1, 0, 'h')]
CHAIN2S = [(1, 0, 's')]
CHAIN3 = [(1, 0, 'h'), (2, 1, 'h')]
CHAIN3HS = [(1, 0, 'h'), (2, 1, 's')]
CHAIN3SH = [(1, 0, 's'), (2, 1, 'h')]
FORK3 = [(1, 0, 'h'), (2, 0, 'h')]
FORK3HS = [(1, 0, 'h'), (2, 0, 's')]
JOIN3 = [(2, 0, 'h'), (2, 1, 'h')]
JOIN3HS = [(2, 0, 'h'), (2, 1, 's')]
JOIN3SS = [(2, 0, 's'), (2, 1, 's')]
TRI3 = [(1, 0, 'h'), (2, 0, 's'), (2, 1, 'h')]
DIAMOND4 = [(1, 0, 'h'), (2, 0, 's'), (3, 1, 'h'), (3, 2, 'h')]
