"""./vf check <ID> [--tier quick|thorough]   ./vf replay <file>   ./vf selftest
"""
import argparse
import importlib
import json
import logging
import os
import sys
import time
import warnings


def _quiet():
    warnings.filterwarnings('ignore')
    logging.disable(logging.CRITICAL)
    import numpy as np
    np.seterr(all='ignore')


def load(pid):
    return importlib.import_module('vfw.props.' + pid.lower())


def cmd_check(args):
    from .core.report import finish
    _quiet()
    pid = args.pid.upper()
    tier = args.tier or os.environ.get('VERIF_TIER') or 'quick'
    seed = int(os.environ.get('VERIF_SEED', '0') or 0)
    os.environ['VF_TIER'] = tier
    mod = load(pid)
    t0 = time.time()
    report = mod.run(tier, seed)
    return finish(pid, tier, seed, mod.LEVEL, report, mod.RULE, mod.ASSUMPTIONS, t0,
                  technique=getattr(mod, 'TECHNIQUE', ''))


def cmd_replay(args):
    _quiet()
    with open(args.path) as fil:
        rec = json.load(fil)
    mod = load(rec['property'])
    print(f"replaying {rec['property']} key={rec['key']}")
    obs = mod.replay(rec['case'])
    print(json.dumps(obs, indent=1, default=repr))
    bad = bool(obs.get('violates'))
    print('REPRODUCED' if bad else 'not reproduced (property holds on this case)')
    return 1 if bad else 0


def cmd_selftest(args):
    from .core import selftest
    _quiet()
    return selftest.main(args)


def main():
    par = argparse.ArgumentParser(prog='vf')
    sub = par.add_subparsers(dest='cmd', required=True)
    chk = sub.add_parser('check')
    chk.add_argument('pid')
    chk.add_argument('--tier', choices=['quick', 'thorough'])
    chk.set_defaults(fn=cmd_check)
    rep = sub.add_parser('replay')
    rep.add_argument('path')
    rep.set_defaults(fn=cmd_replay)
    slf = sub.add_parser('selftest')
    slf.add_argument('--what', default='all')
    slf.set_defaults(fn=cmd_selftest)
    args = par.parse_args()
    sys.exit(args.fn(args))


if __name__ == '__main__':
    main()
