"""C06 - Bonferroni and Holm-Bonferroni flag exactly the bins their definitions reject."""
import itertools
import math

import numpy as np
from scipy import special

from ..core.report import Report
from ..core import pool

LEVEL = 'model_checking'
ENGINE = 'E-input'
DESIGN_REF = '5/C06'
TECHNIQUE = ('bounded exhaustive enumeration of p-value arrays (all arrays of size 1-4[5] over a 7-letter alphabet with ties, 0, 1, NaN, '
             'in every shape and memory layout) through the real static methods and through TestBonferroni/TestHolmBonferroni over '
             'TestStudent, against rank-based reference definitions')
RULE = ('(a) every array of size n over {0, 1e-4, 0.01, 0.02, 0.5, 1, NaN} (7^n arrays = all ties and all permutations), in every shape '
        'holding n cells ((n,), (1,n), (n,1,1), (2,2), (2,3)...) and in C, Fortran and transposed layouts, x levels {0.005, 0.025, 0.25} '
        'plus levels equal to an alphabet value (exact boundary): Bonferroni flags p <= L, Holm flags rank k iff p_(k) < L/(m-k+1), tie '
        'groups judged as multisets, alphas_i and flags at the original positions; (b) the classes over TestStudent on datasets built '
        'from a t-value alphabet {0, 0.5, 2, 2.7, 3.5, 5, inf, NaN}^n, 1-2 compared datasets, shapes scalar/(n,)/(2,2)/transposed, '
        'alpha in {0.01, 0.05, 0.5}, the wrapped Student test at the same level or at 0.001 / 0.2: flags, verdict, nb_rejected, Bonferroni-subset-of-Holm, bin-by-bin pass implies both pass; '
        'non-trivial = arrays with a tie, a NaN, a 0 or a 1, or a non-contiguous layout')
ASSUMPTIONS = ['the overall level of the classes is alpha/2, as they document and as the property mechanism records',
               'Bonferroni-subset-of-Holm is not judged exactly at p = level/m (unsatisfiable there by the two stated definitions)',
               'small-scope: <= 4 (thorough 5) bins for the exhaustive arrays, <= 2 compared datasets']
LEVEL_TEXT = ('All 7^n p-value arrays for n <= 4 (5 in thorough) - hence every tie pattern and every permutation - are pushed through the '
              'real bonferroni_correction / holm_bonferroni_method in every shape and memory layout and compared with the rank definitions '
              '(ties as multisets, NaN never accepted, flags and per-bin levels at the original positions); the same through the test '
              'classes on datasets with chosen t-values, including verdict, counts, Bonferroni within Holm and bin-by-bin implication.')
LEVEL_NOTE = 'numpy sorting and scipy tail functions trusted; p-values of the class-driven part are taken from the implementation after being checked against scipy.special.'

PVALS = [0.0, 1e-4, 0.01, 0.02, 0.5, 1.0, float('nan')]
LEVELS = [0.005, 0.025, 0.25, 0.01, 1e-4, 1.0]
TVALS = [0.0, 0.5, 2.0, 2.7, 3.5, 5.0, float('inf'), float('nan')]


def shapes_for(n):
    out = [(n,), (1, n), (n, 1, 1)]
    for a in range(2, n):
        if n % a == 0:
            out.append((a, n // a))
    return out


def layouts(arr):
    """The same logical array in different memory layouts."""
    yield 'C', arr
    if arr.ndim >= 2 and min(arr.shape) > 1:
        yield 'F', np.asfortranarray(arr)
        yield 'T', np.ascontiguousarray(arr.T).T     # a transposed view: neither owner nor C-contiguous


def holm_reference(flat, level):
    """Per tie group: (indices, expected multiset of flags, expected multiset of levels). NaN last, always flagged."""
    m = len(flat)
    order = sorted(range(m), key=lambda i: (math.isnan(flat[i]), flat[i] if not math.isnan(flat[i]) else 0.0))
    groups = []
    k = 0
    while k < m:
        j = k
        while j + 1 < m and _same(flat[order[j + 1]], flat[order[k]]):
            j += 1
        idx = order[k:j + 1]
        lev = [level / (m - (r + 1) + 1) for r in range(k, j + 1)]
        pval = flat[order[k]]
        flags = [True] * len(idx) if math.isnan(pval) else [pval < lv for lv in lev]
        groups.append((idx, sorted(flags), sorted(lev)))
        k = j + 1
    return groups


def _same(a, b):
    return (math.isnan(a) and math.isnan(b)) or a == b


def check_static(rep, flat, shape, lay, arr, level):
    from valjean.gavroche.stat_tests.bonferroni import TestBonferroni, TestHolmBonferroni
    case = {'pvalues': list(flat), 'shape': shape, 'layout': lay, 'level': level}
    nont = len(set(map(repr, flat))) < len(flat) or any(math.isnan(p) or p in (0.0, 1.0) for p in flat) or lay != 'C'
    rep.case(nontrivial=(tuple(map(repr, flat)), shape, lay, level) if nont else None)
    nan = 'nan' if any(math.isnan(p) for p in flat) else 'nonan'
    tag = f'{nan}|layout={lay}|ndim={len(shape)}'
    # Bonferroni: the static method receives the per-bin level
    rej = TestBonferroni.bonferroni_correction(arr, level)
    if np.shape(rej) != tuple(shape):
        rep.violate(f'C06|bonferroni|shape|{tag}', f'flags of shape {np.shape(rej)} for p-values of shape {shape}', case, size=len(flat))
    else:
        got = np.asarray(rej).reshape(-1) if lay == 'C' else np.array([rej[idx] for idx in np.ndindex(*shape)])
        for i, pval in enumerate(flat):
            exp = True if math.isnan(pval) else pval <= level
            if bool(got[i]) != exp:
                clause = 'nan-accepted' if math.isnan(pval) else 'flag'
                rep.violate(f'C06|bonferroni|{clause}|{tag}', f'p={pval!r} level={level}: flagged={bool(got[i])}, definition says {exp}', case, size=len(flat))
                break
    # Holm-Bonferroni
    alphas, rejh = TestHolmBonferroni.holm_bonferroni_method(arr, level)
    if np.shape(rejh) != tuple(shape) or np.shape(alphas) != tuple(shape):
        rep.violate(f'C06|holm|shape|{tag}', f'flags/levels of shape {np.shape(rejh)}/{np.shape(alphas)} for p-values of shape {shape}', case, size=len(flat))
        return
    gotf = [bool(rejh[idx]) for idx in np.ndindex(*shape)]
    gota = [float(alphas[idx]) for idx in np.ndindex(*shape)]
    outcome = []
    for idx, expf, expl in holm_reference(flat, level):
        pval = flat[idx[0]]
        obsf = sorted(gotf[i] for i in idx)
        obsl = sorted(gota[i] for i in idx)
        outcome.append(tuple(obsf))
        if obsf != expf:
            clause = 'nan-accepted' if math.isnan(pval) else 'flag'
            rep.violate(f'C06|holm|{clause}|{tag}', f'bins with p={pval!r} (ranks give levels {expl}): flags {obsf}, definition says {expf}', case, size=len(flat))
            break
        if obsl != expl:
            rep.violate(f'C06|holm|alphas_i|{tag}', f'bins with p={pval!r}: reported levels {obsl}, definition says {expl}', case, size=len(flat))
            break
        for i in idx:   # each bin's own flag must agree with its own reported level
            if not math.isnan(pval) and gotf[i] != (pval < gota[i]):
                rep.violate(f'C06|holm|flag-vs-own-level|{tag}', f'bin {i} p={pval!r} level {gota[i]}: flagged={gotf[i]}', case, size=len(flat))
    rep.outcomes[('static', len(flat), sum(gotf))] += 1


def job_static(args):
    n, first = args
    rep = Report()
    for rest in itertools.product(PVALS, repeat=n - 1):
        flat = (first,) + rest
        for shape in shapes_for(n):
            base = np.array(flat, dtype=float).reshape(shape)
            for lay, arr in layouts(base):
                for level in LEVELS:
                    check_static(rep, flat, shape, lay, arr, level)
    rep.sample({'static': {'pvalues': [first] + [0.02] * (n - 1), 'shape': shapes_for(n)[-1], 'level': 0.025}})
    return rep


def pref(tval):
    return math.nan if math.isnan(tval) else 2.0 * float(special.ndtr(-abs(tval)))


def job_class(args):
    n, shape, lay, nds, alpha, first = args[:6]
    salpha = args[6] if len(args) > 6 and args[6] is not None else alpha   # level of the wrapped Student test (may differ)
    nanref = len(args) > 7 and args[7]       # an undefined bin comes from a NaN in the REFERENCE dataset instead of the compared one
    from valjean.eponine.dataset import Dataset
    from valjean.gavroche.stat_tests.student import TestStudent
    from valjean.gavroche.stat_tests.bonferroni import TestBonferroni, TestHolmBonferroni
    rep = Report()

    def mkds(vals, errs):
        if shape == ():
            return Dataset(np.float64(vals[0]), np.float64(errs[0]))
        val, err = np.array(vals, dtype=float).reshape(shape), np.array(errs, dtype=float).reshape(shape)
        if lay == 'F':
            val, err = np.asfortranarray(val), np.asfortranarray(err)
        elif lay == 'T':
            val, err = np.ascontiguousarray(val.T).T, np.ascontiguousarray(err.T).T
        return Dataset(val, err)

    dsref = mkds([0.0] * n, [0.0] * n)
    for rest in itertools.product(TVALS, repeat=n * nds - 1):
        tvals = (first,) + rest
        if nanref:
            # the bins that are NaN in the first compared dataset are NaN in the reference instead (hence undefined for
            # every compared dataset); the number of hypotheses is still the number of bins
            holes = [i for i in range(n) if math.isnan(tvals[i])]
            if not holes:
                continue
            dsref = mkds([math.nan if i in holes else 0.0 for i in range(n)], [0.0] * n)
            tvals = tuple(math.nan if (i % n) in holes else t for i, t in enumerate(tvals))
            others = [mkds([0.0 if (i in holes) else tvals[k * n + i] for i in range(n)], [1.0] * n) for k in range(nds)]
        else:
            others = [mkds(list(tvals[k * n:(k + 1) * n]), [1.0] * n) for k in range(nds)]
        case = {'t-values per dataset': [list(tvals[k * n:(k + 1) * n]) for k in range(nds)], 'shape': shape, 'layout': lay, 'alpha': alpha,
                'student alpha': salpha}
        stu = TestStudent(dsref, *others, name='s', alpha=salpha)
        rbon = TestBonferroni(name='b', test=stu, alpha=alpha).evaluate()
        rhol = TestHolmBonferroni(name='h', test=stu, alpha=alpha).evaluate()
        rstu = stu.evaluate()
        nont = len(set(map(repr, tvals))) < len(tvals) or any(math.isnan(t) or math.isinf(t) or t == 0 for t in tvals) or lay != 'C'
        rep.case(nontrivial=(tuple(map(repr, tvals)), shape, lay, nds, alpha) if nont else None,
                 outcome=('class', bool(rstu), bool(rbon), bool(rhol)))
        tag = f"{'nan' if any(math.isnan(t) for t in tvals) else 'nonan'}|layout={lay}|ndim={len(shape)}|nds={nds}" + \
            ('' if salpha == alpha else '|student-level-differs') + ('|nan-in-reference' if nanref else '')
        level = alpha / 2
        anyb = anyh = False
        for k in range(nds):
            flat_t = tvals[k * n:(k + 1) * n]
            pimp = rbon.first_test_res.pvalue[k]
            pflat = [float(pimp)] if shape == () else [float(pimp[idx]) for idx in np.ndindex(*shape)]
            for i, tval in enumerate(flat_t):   # the p-values are those of the t-values put in
                pex = pref(-tval if not math.isnan(tval) else tval)
                if not (math.isnan(pex) and math.isnan(pflat[i])) and abs(pflat[i] - pex) > 1e-9 * max(pex, 1e-300):
                    rep.violate(f'C06|class|pvalue|{tag}', f'bin {i}: p={pflat[i]!r} for t={tval!r}, reference {pex!r}', case, size=len(tvals))
            bflags = np.asarray(rbon.rejected_null_hyp[k])
            hflags = np.asarray(rhol.rejected_null_hyp[k])
            bflat = [bool(bflags)] if shape == () else [bool(bflags[idx]) for idx in np.ndindex(*shape)]
            hflat = [bool(hflags)] if shape == () else [bool(hflags[idx]) for idx in np.ndindex(*shape)]
            for i, pval in enumerate(pflat):
                exp = True if math.isnan(pval) else pval <= level / n
                if bflat[i] != exp:
                    clause = 'nan-accepted' if math.isnan(pval) else 'flag'
                    rep.violate(f'C06|class|bonferroni|{clause}|{tag}', f'dataset {k} bin {i} p={pval!r} level {level / n}: flagged={bflat[i]}, definition {exp}', case, size=len(tvals))
                if bflat[i] and not hflat[i] and not (not math.isnan(pval) and pval == level / n):
                    rep.violate(f'C06|class|bonferroni-not-in-holm|{tag}', f'dataset {k} bin {i} p={pval!r} flagged by Bonferroni but not by Holm-Bonferroni', case, size=len(tvals))
            for idx, expf, _ in holm_reference(pflat, level):
                obsf = sorted(hflat[i] for i in idx)
                if obsf != expf:
                    clause = 'nan-accepted' if math.isnan(pflat[idx[0]]) else 'flag'
                    rep.violate(f'C06|class|holm|{clause}|{tag}', f'dataset {k} bins with p={pflat[idx[0]]!r}: flags {obsf}, definition says {expf}', case, size=len(tvals))
            anyb, anyh = anyb or any(bflat), anyh or any(hflat)
            if rbon.nb_rejected[k] != sum(bflat) or rhol.nb_rejected[k] != sum(hflat):
                rep.violate(f'C06|class|nb_rejected|{tag}', f'dataset {k}: nb_rejected {rbon.nb_rejected[k]}/{rhol.nb_rejected[k]} vs flags {sum(bflat)}/{sum(hflat)}', case, size=len(tvals))
            if bool(rbon.oracles()[k]) != (not any(bflat)) or bool(rhol.oracles()[k]) != (not any(hflat)):
                rep.violate(f'C06|class|oracles|{tag}', f'dataset {k}: oracles() disagree with the flags', case, size=len(tvals))
        if bool(rbon) != (not anyb):
            rep.violate(f'C06|class|verdict|bonferroni|{tag}', f'verdict {bool(rbon)} but flagged={anyb}', case, size=len(tvals))
        if bool(rhol) != (not anyh):
            rep.violate(f'C06|class|verdict|holm|{tag}', f'verdict {bool(rhol)} but flagged={anyh}', case, size=len(tvals))
        if salpha >= alpha and bool(rstu) and not (bool(rbon) and bool(rhol)):
            rep.violate(f'C06|class|binwise-pass-implies-corrections-pass|{tag}', f'Student passes bin by bin at alpha={alpha} but Bonferroni={bool(rbon)} Holm={bool(rhol)}', case, size=len(tvals))
    rep.sample({'class': {'shape': shape, 'layout': lay, 'n_datasets': nds, 'alpha': alpha, 't-values': [first] + [2.7] * (n * nds - 1)}})
    return rep


def _call(job):
    return job[0](job[1])


def run(tier, seed):
    jobs = []
    nmax = 4 if tier == 'quick' else 5
    for n in range(1, nmax + 1):
        for first in PVALS:
            jobs.append((job_static, (n, first)))
    alphas = [0.01, 0.05, 0.5]
    for alpha in alphas:
        for first in TVALS:
            jobs.append((job_class, (1, (), 'C', 1, alpha, first)))
            jobs.append((job_class, (1, (), 'C', 2, alpha, first)))
            jobs.append((job_class, (1, (1,), 'C', 1, alpha, first)))
            jobs.append((job_class, (3, (3,), 'C', 1, alpha, first)))
            jobs.append((job_class, (2, (2,), 'C', 2, alpha, first)))
            jobs.append((job_class, (2, (1, 2), 'C', 1, alpha, first)))
            for lay in ('C', 'F', 'T'):
                if tier == 'thorough' or alpha == 0.05:
                    jobs.append((job_class, (4, (2, 2), lay, 1, alpha, first)))
            # the wrapped Student test has its own level (default 0.01): the corrections judge the p-values, not its verdict
            for salpha in (0.001, 0.2):
                if salpha != alpha and (tier == 'thorough' or alpha == 0.05):
                    jobs.append((job_class, (1, (), 'C', 1, alpha, first, salpha)))
                    jobs.append((job_class, (3, (3,), 'C', 1, alpha, first, salpha)))
                    jobs.append((job_class, (2, (2,), 'C', 2, alpha, first, salpha)))
            if tier == 'thorough' or alpha == 0.05:
                jobs.append((job_class, (3, (3,), 'C', 1, alpha, first, None, True)))
                jobs.append((job_class, (2, (2,), 'C', 2, alpha, first, None, True)))
                jobs.append((job_class, (4, (2, 2), 'C', 1, alpha, first, None, True)))
            if tier == 'thorough':
                jobs.append((job_class, (3, (3,), 'C', 2, alpha, first)))
                jobs.append((job_class, (4, (4,), 'C', 1, alpha, first)))
    return pool.pmap(_call, jobs, seed)


def replay(case):
    from valjean.gavroche.stat_tests.bonferroni import TestBonferroni, TestHolmBonferroni
    if 'pvalues' in case:
        flat = [float(p) for p in case['pvalues']]
        arr = np.array(flat).reshape(case['shape'])
        arr = {'C': arr, 'F': np.asfortranarray(arr), 'T': np.ascontiguousarray(arr.T).T}[case['layout']]
        rep = Report()
        check_static(rep, tuple(flat), tuple(case['shape']), case['layout'], arr, case['level'])
        alphas, rejh = TestHolmBonferroni.holm_bonferroni_method(arr, case['level'])
        return {'bonferroni': repr(TestBonferroni.bonferroni_correction(arr, case['level'])), 'holm_flags': repr(rejh),
                'holm_levels': repr(alphas), 'problems': {k: v[0] for k, v in rep.violations.items()}, 'violates': bool(rep.violations)}
    return {'note': 'class-driven case: re-run ./vf check C06', 'case': case, 'violates': False}
