"""Construction of test results of every kind that has a built-in representation,
from a small description (shared by the checks C12, C13, C18)."""
from collections import OrderedDict

import numpy as np

DATASET_KINDS = ('equal', 'approx', 'student', 'bonferroni', 'holm')
ALL_KINDS = DATASET_KINDS + ('metadata', 'stats_tasks', 'stats_tests', 'stats_labels', 'failed')


class ShapeMismatch(Exception):
    """An exception that can be pickled but not rebuilt from the pickle (two mandatory constructor arguments, one message)."""

    def __init__(self, expected, got):
        super().__init__(f'expected shape {expected}, got {got}')
        self.expected, self.got = expected, got


def make_bins(shape):
    if shape == ():
        return None
    out = OrderedDict()
    for axis, dim in enumerate(shape):
        name = ('e', 't', 'mu', 'phi')[axis]
        out[name] = np.arange(dim + 1) * 1.5 + 10 * axis if axis % 2 == 0 else np.arange(dim) * 2.0 + 100 * axis
    return out


STORAGES = ('native', 'big-endian', 'fortran', 'strided', 'float32', 'string-bins')


def store(arr, storage):
    """The same numbers in another memory representation (byte order, layout, stride, width)."""
    if storage in (None, 'native') or np.ndim(arr) == 0:
        return arr
    if storage == 'big-endian':
        return arr.astype(arr.dtype.newbyteorder('>'))
    if storage == 'fortran':
        return np.asfortranarray(arr)
    if storage == 'strided':
        wide = np.zeros(arr.shape[:-1] + (2 * arr.shape[-1],), dtype=arr.dtype)
        wide[..., ::2] = arr
        return wide[..., ::2]
    if storage == 'float32':
        return arr.astype(np.float32) if arr.dtype.kind == 'f' else arr
    raise ValueError(storage)


def make_datasets(shape, patterns, names=None, storage=None):
    """patterns: one tuple of booleans (True = this bin FAILS) per compared dataset, C order."""
    from valjean.eponine.dataset import Dataset
    ncell = int(np.prod(shape)) if shape else 1
    refv = np.array([1.0 + 0.5 * i for i in range(ncell)])
    refe = np.array([0.1 + 0.01 * i for i in range(ncell)])
    bins = make_bins(shape)

    def mk(val, err, name):
        if shape == ():
            return Dataset(np.float64(val[0]), np.float64(err[0]), name=name, what='flux')
        if storage == 'string-bins':
            # zone / isotope names instead of numbers along the first axis (bins at centre); every dataset owns its arrays
            sbins = OrderedDict((k, v.copy()) for k, v in bins.items())
            first = next(iter(sbins))
            sbins[first] = np.array([f'zone{i}' for i in range(shape[0])])
            return Dataset(val.reshape(shape).copy(), err.reshape(shape).copy(), bins=sbins, name=name, what='flux')
        sbins = bins if storage in (None, 'native') else OrderedDict((k, store(v.copy(), storage)) for k, v in bins.items())
        return Dataset(store(val.reshape(shape).copy(), storage), store(err.reshape(shape).copy(), storage), bins=sbins,
                       name=name, what='flux')

    names = names or ['ref'] + [f'ds{k}' for k in range(len(patterns))]
    # special cells: 'zeroerr' = both errors zero and values differ (Student t = +-inf), 'inf' / 'nan' = such a value on the compared side
    special = {(k, i): p for k, pat in enumerate(patterns) for i, p in enumerate(pat) if isinstance(p, str)}
    refe = refe.copy()
    for (_, i), what in special.items():
        if what == 'zeroerr':
            refe[i] = 0.0
    if 'exactref' in special.values():
        refe[:] = 0.0               # a deterministic reference: no error anywhere; the marked bin is 0-error and equal on the other side
    out = [mk(refv, refe, names[0])]
    for k, pat in enumerate(patterns):
        val = refv + np.array([5.0 + k if bad is True or bad == 'zeroerr' else 0.0 for bad in pat])
        err = refe * (1 + 0.1 * (k + 1))
        if 'exactref' in special.values():
            err = 0.1 + 0.01 * np.arange(ncell) * (k + 1)
        for i, what in enumerate(pat):
            if what == 'exactref':
                err[i] = 0.0
            if what == 'inf':
                val[i] = np.inf
            elif what == 'nan':
                val[i] = np.nan
        out.append(mk(val, err, names[k + 1]))
    return out


def build(kind, shape=(3,), patterns=((False, True, False),), alpha=0.05, extra=None, storage=None, evaluate=True):
    """Evaluate a test of the given kind.  Returns (test, result)."""
    from valjean.gavroche.test import TestEqual, TestApproxEqual, TestResultFailed
    from valjean.gavroche.stat_tests.student import TestStudent
    from valjean.gavroche.stat_tests.bonferroni import TestBonferroni, TestHolmBonferroni
    if kind in DATASET_KINDS:
        dss = make_datasets(shape, patterns, storage=storage)
        if kind == 'equal':
            test = TestEqual(*dss, name='t_equal', description='equal test')
        elif kind == 'approx':
            test = TestApproxEqual(*dss, name='t_approx', description='approx test')
        elif kind == 'student':
            test = TestStudent(*dss, name='t_student', description='student test', alpha=alpha)
        elif kind == 'bonferroni':
            test = TestBonferroni(name='t_bonf', description='bonferroni', alpha=alpha,
                                  test=TestStudent(*dss, name='t_student', description='student test', alpha=alpha))
        else:
            test = TestHolmBonferroni(name='t_holm', description='holm', alpha=alpha,
                                      test=TestStudent(*dss, name='t_student', description='student test', alpha=alpha))
        return test, (test.evaluate() if evaluate else None)
    if kind == 'failed':
        dss = make_datasets((2,), ((False, False),))
        test = TestEqual(*dss, name='t_failed', description='evaluation raised')
        return test, TestResultFailed(test, 'ValueError: something went wrong')
    if kind == 'failed_exc':
        dss = make_datasets((2,), ((False, False),))
        test = TestEqual(*dss, name='t_failed', description='evaluation raised')
        return test, TestResultFailed(test, ShapeMismatch((2,), (3,)))       # what actually_eval_test records: the exception itself
    if kind == 'metadata':
        return build_metadata(extra if extra is not None else (True, False))
    if kind == 'stats_tasks':
        return build_stats_tasks(extra if extra is not None else ('DONE', 'FAILED'))
    if kind == 'stats_tests':
        return build_stats_tests(extra if extra is not None else ((True,), (False,)))
    if kind == 'stats_labels':
        return build_stats_labels(extra if extra is not None else ((True, 'd1'), (False, 'd2')))
    raise ValueError(kind)


def build_metadata(agree):
    """agree: tuple of booleans, one per metadata key: do the two samples agree on it?"""
    from valjean.gavroche.diagnostics.metadata import TestMetadata
    md1, md2 = {}, {}
    for k, same in enumerate(agree):
        md1[f'key{k}'] = f'val{k}'
        md2[f'key{k}'] = f'val{k}' if same else f'other{k}'
    test = TestMetadata({'sample1': md1, 'sample2': md2}, name='t_metadata', description='metadata test')
    return test, test.evaluate()


def task_results_for_status(statuses):
    from valjean.cosette.task import TaskStatus
    return [(f'task{k}', {'status': TaskStatus[s]}) for k, s in enumerate(statuses)]


def build_stats_tasks(statuses):
    from valjean.gavroche.diagnostics.stats import TestStatsTasks
    test = TestStatsTasks(name='t_stats_tasks', description='tasks', task_results=task_results_for_status(statuses))
    return test, test.evaluate()


def simple_result(verdict, name, labels=None):
    """A TestEqual result with the wanted verdict."""
    from valjean.eponine.dataset import Dataset
    from valjean.gavroche.test import TestEqual
    one = Dataset(np.array([1.0, 2.0]), np.array([0.1, 0.1]), name='a')
    two = Dataset(np.array([1.0, 2.0 if verdict else 3.0]), np.array([0.1, 0.1]), name='b')
    return TestEqual(one, two, name=name, description='d', labels=labels).evaluate()


def build_stats_tests(verdicts_per_task, naming='distinct'):
    """verdicts_per_task: tuple (one per task) of tuples of verdicts; None instead of a tuple = task without result.
    naming: 'distinct' = every test has its own name; 'same' = all tests are called 'test' (equal verdicts then mean equal tests);
    'same-labelled' = all called 'test', each task evaluating them under its own 'day' label."""
    from valjean.gavroche.diagnostics.stats import TestStatsTests
    from valjean.cosette.task import TaskStatus
    trs = []
    for k, verdicts in enumerate(verdicts_per_task):
        if verdicts is None:
            trs.append((f'task{k}', {'status': TaskStatus.FAILED}))
        else:
            trs.append((f'task{k}', {'status': TaskStatus.DONE,
                                     'result': [simple_result(v, f'test{k}_{j}' if naming == 'distinct' else 'test',
                                                              labels={'day': f'd{k}'} if naming == 'same-labelled' else None)
                                                for j, v in enumerate(verdicts)]}))
    test = TestStatsTests(name='t_stats_tests', description='tests', task_results=trs)
    return test, test.evaluate()


def build_stats_labels(results, by_labels=('day',), naming='distinct'):
    """results: tuple of (verdict, day label or None[, meal label])."""
    from valjean.gavroche.diagnostics.stats import TestStatsTestsByLabels
    from valjean.cosette.task import TaskStatus
    trs = []
    for k, item in enumerate(results):
        verdict, day = item[0], item[1]
        labels = {}
        if day is not None:
            labels['day'] = day
        if len(item) > 2 and item[2] is not None:
            labels['meal'] = item[2]
        if len(item) > 3 and item[3] is not None:
            labels['index'] = item[3]
        trs.append((f'task{k}', {'status': TaskStatus.DONE,
                                 'result': [simple_result(verdict, f'test{k}' if naming == 'distinct' else 'test', labels=labels)]}))
    test = TestStatsTestsByLabels(name='t_stats_labels', description='by labels', task_results=trs, by_labels=tuple(by_labels))
    return test, test.evaluate()
