"""Synthetic Tripoli-4 listings assembled from the response layouts of the shipped example
listings (header of entropy.d.res.ceav5; spectrum / time-spectrum / integrated / keff /
not-converged blocks as printed in ttsSimplePacket20, gauss_E_time_mu_phi, entropy).

A listing is described by a ground-truth structure (`spec`), rendered to text by `render`.
spec = {'editions': [ {'batch': int, 'time': int, 'responses': [response...], 'keff': None|dict} ]}
response = {'function', 'name', 'score_name', 'zones': [zone...]}
zone = {'vol': int, 'egroups': [e0 > e1 > ... ] (decreasing edges as Tripoli prints them),
        'e_increasing_print': bool, 'tsteps': None | [(tmin, tmax), ...] in printing order,
        'cells': {(t_index_printed | None, g_index_printed): (score, sigma%)},
        'integrated': {t_index_printed | None: (score, sigma%) | None (= not converged)}, 'used': int}
"""
import functools
import itertools
import os

SRC = '/repo/tests/eponine/tripoli4/data/entropy.d.res.ceav5'
STAR = '*' * 78


@functools.lru_cache(None)
def header():
    with open(SRC, encoding='utf-8', errors='ignore') as fil:
        lines = fil.read().split('\n')
    end = next(i for i, l in enumerate(lines) if 'initialization time' in l)
    return '\n'.join(lines[:end + 1]) + '\n'


def fmt(x):
    return f'{x:.6e}'


def mesh_text(zone):
    """'Results on a mesh' as printed in tungstene / cylindreDecR_with_kij_on_mesh."""
    out = ['\t scoring mode : SCORE_TRACK', '\t scoring zone : \t Results on a mesh: ', '\t Cell   \t  tally   \t  sigma (percent)', '', '']
    edges = zone['egroups']
    groups = list(zip(edges[:-1], edges[1:]))
    if zone['e_increasing_print']:
        groups = [(lo, hi) for hi, lo in reversed(groups)]
    ncell = zone['mesh']
    order = list(itertools.product(range(ncell[0]), range(ncell[1]), range(ncell[2])))
    for gind, (ea, eb) in enumerate(groups):
        out.append(f'Energy range (in MeV): {fmt(ea)} - {fmt(eb)}')
        for cell in order:
            score, sigma = zone['cells'][('mesh', gind, cell)]
            out.append(f'\t ({cell[0]},{cell[1]},{cell[2]})\t {fmt(score)}\t{fmt(sigma)}')
        out.append('')
    out += ['', 'ENERGY INTEGRATED RESULTS :']
    for cell in order:
        score, sigma = zone['cells'][('mesh', None, cell)]
        out.append(f'\t ({cell[0]},{cell[1]},{cell[2]})\t {fmt(score)}\t{fmt(sigma)}')
    integ = zone['integrated'][None]
    out += ['', f'number of batches used: {zone["used"]}\t{fmt(integ[0])}\t{fmt(integ[1])}', '', '']
    return out


def zone_text(zone):
    if zone.get('mesh'):
        return mesh_text(zone)
    if zone.get('mus'):
        out = ['\t scoring mode : SCORE_SURF', f'\t scoring zone : \t Frontier \t volumes : {zone["vol"] + 1},{zone["vol"]}', '', '']
    else:
        out = ['\t scoring mode : SCORE_TRACK', f'\t scoring zone : \t Volume \t num of volume : {zone["vol"]}',
               '\t Volume in cm3: 1.000000e+00', '', '']
    edges = zone['egroups']
    groups = list(zip(edges[:-1], edges[1:]))            # decreasing: (high, low)
    if zone['e_increasing_print']:
        groups = [(lo, hi) for hi, lo in reversed(groups)]
    tsteps = zone['tsteps'] or [None]
    mus = zone.get('mus') or [None]
    phis = zone.get('phis') or [None]
    for tind, tstep in enumerate(tsteps):
        tkey = None if tstep is None else tind
        if tstep is not None:
            out += [f'\t TIME STEP NUMBER : {tind}', '\t ------------------------------------',
                    f'\t\t time min. = {fmt(tstep[0])}', f'\t\t time max. = {fmt(tstep[1])}', '']
        for mind, mu in enumerate(mus):
            mkey = None if mu is None else mind
            if mu is not None:
                out += [f'\t MU ANGULAR ZONE : {mind}', '\t ------------------------------------',
                        f'\t\t mu min. = {fmt(mu[0])}', f'\t\t mu max. = {fmt(mu[1])}', '']
            for pind, phi in enumerate(phis):
                pkey = None if phi is None else pind
                if phi is not None:
                    out += [f'\t\t PHI ANGULAR ZONE : {pind}', '\t\t ------------------------------------',
                            f'\t\t\t phi min. = {fmt(phi[0])}', f'\t\t\t phi max. = {fmt(phi[1])}', '']
                out += ['\t SPECTRUM RESULTS', '\t number of first discarded batches : 0', '',
                        '\t group (MeV) \t\t score   \t sigma_% \t score/lethargy', '']
                for gind, (ea, eb) in enumerate(groups):
                    score, sigma = zone['cells'][cell_key(tkey, mkey, pkey, gind)]
                    out.append(f'{fmt(ea)} - {fmt(eb)}\t{fmt(score)}\t{fmt(sigma)}\t{fmt(score / 2)}')
                if mu is not None:
                    out += ['', '']
        if zone.get('mus'):
            continue                     # angular spectra are printed without an energy-integrated result (gauss_E_time_mu_phi)
        out += ['', '\t ENERGY INTEGRATED RESULTS', '', '\t number of first discarded batches : 0', '']
        integ = zone['integrated'][tkey]
        if integ is None:
            out += ['\t NOT YET CONVERGED ', '']
        else:
            out += [f'number of batches used: {zone["used"]}\t{fmt(integ[0])}\t{fmt(integ[1])}', '']
        out.append('')
    return out


def cell_key(tkey, mkey, pkey, gind):
    """Cells are keyed (t, g) for plain spectra (as before) and (t, mu, phi, g) for angular ones."""
    return (tkey, gind) if mkey is None else (tkey, mkey, pkey, gind)


def response_text(resp):
    out = ['', STAR, f'RESPONSE FUNCTION : {resp["function"]}', f'RESPONSE NAME : {resp["name"]}']
    if resp.get('score_name'):
        out.append(f'SCORE NAME : {resp["score_name"]}')
    out += ['ENERGY DECOUPAGE NAME : DEC', '', '', ' PARTICULE : NEUTRON ', STAR, '']
    for zone in resp['zones']:
        out += zone_text(zone)
    out += ['', '']
    return '\n'.join(out)


def keff_text(keff):
    out = ['', STAR, 'RESPONSE FUNCTION : KEFFS', STAR, '', '\tENERGY INTEGRATED RESULTS', '']
    if keff.get('not_converged'):
        out += [f'number of batches used:\t{keff["used"]}', '', '', '\t NOT YET CONVERGED ', '', '', '']
        for est in ('KSTEP', 'KCOLL', 'KTRACK '):
            out += [f'\t  {est} ESTIMATOR', '\t -------------------- ', '', '', '', '\t\t  NOT YET CONVERGED', '', '', '']
        return '\n'.join(out)
    out += [f'number of batches used:\t{keff["used"]}', '']
    for est in ('KSTEP', 'KCOLL', 'KTRACK'):
        val, sig = keff[est]
        out.append(f' {est:<6} {fmt(val)}\t{fmt(sig)}')
    out += ['', '  \t  estimators  \t\t\t  correlations   \t  combined values  \t  combined sigma%']
    for (one, two), (cor, val, sig) in keff['combined'].items():
        out.append(f'  \t  {one} <-> {two}  \t    \t  {fmt(cor)}  \t  {fmt(val)}  \t  {fmt(sig)}')
    out += ['', f'  \t  full combined estimator  {fmt(keff["full"][0])}\t{fmt(keff["full"][1])}', '', '', '']
    for est, label in (('KSTEP', 'KSTEP'), ('KCOLL', 'KCOLL'), ('KTRACK', 'KTRACK ')):
        val, sig = keff['best_' + est]
        out += [f'\t  {label} ESTIMATOR', '\t -------------------- ', '', '',
                ' \t best results are obtained with discarding 2 batches', '',
                f'\t number of batch used: {keff["used"] - 2}\t keff = {fmt(val)}\t sigma = {fmt(val * sig / 100)}\t sigma% = {fmt(sig)}', '', '']
    return '\n'.join(out)


def edition_text(edi):
    head = ['', f' batch number : {edi["batch"]}', '', '', '*' * 57, '',
            ' RESULTS ARE GIVEN FOR SOURCE INTENSITY : 1.000000e+00', '*' * 57, '', '',
            f' Edition after batch number : {edi["batch"]}', '', '']
    body = ''.join(response_text(r) for r in edi['responses'])
    if edi.get('keff'):
        body += keff_text(edi['keff'])
    return '\n'.join(head) + body + f'\n\n simulation time (s) : {edi["time"]}\n\n'


def render(spec):
    tail = ('\n\n Type and parameters of random generator at the end of simulation: \n'
            '\t DRAND48_RANDOM 11835 50533 54246  COUNTER\t39756480\n\n\n'
            + '=' * 69 + '\n\tNORMAL COMPLETION\n' + '=' * 69 + '\n')
    return header() + ''.join(edition_text(e) for e in spec['editions']) + tail


# ------------------------------------------------------------------ ground-truth builders
def make_zone(vol, base, negroups, e_inc, ntsteps, t_inc, values=('plain',), sigmas=(1.5,), converged=True, used=10, nmu=0, mu_inc=True,
              nphi=0, phi_inc=True, mesh=None):
    """Unique values: base + 100*t + g (so that a swap cannot cancel); `values` cycles special values in."""
    edges = [2.0e1, 1.0, 1.0e-5, 1.0e-11][:negroups + 1]
    edges[-1] = 1.0e-11
    if mesh:
        cells = {}
        k = 0
        for gind in list(range(negroups)) + [None]:
            for cell in itertools.product(range(mesh[0]), range(mesh[1]), range(mesh[2])):
                kind = values[k % len(values)]
                val = base + (50.0 if gind is None else gind) + 0.001 * (100 * cell[0] + 10 * cell[1] + cell[2]) + 0.25
                val = {'neg': -val, 'zero': 0.0, 'small': val * 1e-3, 'big': val * 1e30}.get(kind, val)
                cells[('mesh', gind, cell)] = (val, sigmas[k % len(sigmas)])
                k += 1
        return {'vol': vol, 'egroups': edges, 'e_increasing_print': e_inc, 'tsteps': None, 'cells': cells, 'mesh': tuple(mesh),
                'integrated': {None: (base * 10 + 0.5, sigmas[k % len(sigmas)])}, 'used': used, 'mus': None, 'phis': None}
    tsteps = None
    if ntsteps:
        bounds = [0.0, 2.0, 3.0, 4.0, 1.0e35][:ntsteps] + [1.0e35]
        tsteps = list(zip(bounds[:-1], bounds[1:]))          # increasing
        if not t_inc:
            tsteps = tsteps[::-1]
    mus = phis = None
    if nmu:
        mbounds = [-1.0, -0.5, 0.25, 1.0][:nmu] + [1.0]
        mus = list(zip(mbounds[:-1], mbounds[1:]))
        if not mu_inc:
            mus = mus[::-1]
        if nphi:
            pbounds = [0.0, 2.0, 4.5, 6.283185][:nphi] + [6.283185]
            phis = list(zip(pbounds[:-1], pbounds[1:]))
            if not phi_inc:
                phis = phis[::-1]
    cells, integ = {}, {}
    k = 0
    for tind in (range(len(tsteps)) if tsteps else [None]):
        for mind, pind, gind in itertools.product(range(len(mus)) if mus else [None], range(len(phis)) if phis else [None],
                                                  range(negroups)):
            kind = values[k % len(values)]
            val = base + 100.0 * (tind or 0) + 20.0 * (mind or 0) + 5.0 * (pind or 0) + gind + 0.25
            if kind == 'neg':
                val = -val
            elif kind == 'zero':
                val = 0.0
            elif kind == 'small':
                val = val * 1e-3
            elif kind == 'big':
                val = val * 1e30
            cells[cell_key(tind, mind, pind, gind)] = (val, sigmas[k % len(sigmas)])
            k += 1
        integ[tind] = (base * 10 + (tind or 0) + 0.5, sigmas[k % len(sigmas)]) if converged else None
    return {'vol': vol, 'egroups': edges, 'e_increasing_print': e_inc, 'tsteps': tsteps, 'cells': cells,
            'integrated': integ, 'used': used, 'mus': mus, 'phis': phis}


def make_keff(base, used=10, not_converged=False):
    if not_converged:
        return {'not_converged': True, 'used': used}
    ests = {'KSTEP': (0.97 + base, 0.093), 'KCOLL': (0.974 + base, 0.096), 'KTRACK': (0.975 + base, 0.099)}
    comb = {('KSTEP', 'KCOLL'): (0.995, 0.9751 + base, 0.088), ('KSTEP', 'KTRACK'): (0.346, 0.9749 + base, 0.079),
            ('KCOLL', 'KTRACK'): (0.338, 0.9748 + base, 0.080)}
    out = dict(ests)
    out.update({'combined': comb, 'full': (0.97523 + base, 0.0769), 'used': used,
                'best_KSTEP': (0.9755 + base, 0.0716), 'best_KCOLL': (0.9754 + base, 0.0703), 'best_KTRACK': (0.9753 + base, 0.0995)})
    return out


def make_spec(neditions=1, nresp=1, nzones=1, negroups=2, e_inc=False, ntsteps=0, t_inc=True,
              values=('plain',), sigmas=(1.5,), converged=True, keff=None, nmu=0, mu_inc=True, nphi=0, phi_inc=True, mesh=None):
    editions = []
    for edi in range(neditions):
        resps = []
        for rind in range(nresp):
            func = ('FLUX', 'REACTION')[rind % 2]
            zones = [make_zone(1 + 2 * z, 1000.0 * (edi + 1) + 10000.0 * rind + 300.0 * z + 7, negroups, e_inc, ntsteps, t_inc,
                               values, sigmas, converged, used=10 * (edi + 1), nmu=nmu, mu_inc=mu_inc, nphi=nphi, phi_inc=phi_inc, mesh=mesh)
                     for z in range(nzones)]
            resps.append({'function': func, 'name': f'resp{rind}', 'score_name': f'score{rind}', 'zones': zones})
        editions.append({'batch': 5 * (edi + 1), 'time': 12 * (edi + 1), 'responses': resps,
                         'keff': None if keff is None else make_keff(0.001 * edi, 10 * (edi + 1), keff == 'not_converged')})
    return {'editions': editions}


NAMED = {
    'synthetic:2ed-spectrum': dict(neditions=2, nresp=2, nzones=2, negroups=3, e_inc=False),
    'synthetic:2ed-time-keff': dict(neditions=2, nresp=1, nzones=1, negroups=2, ntsteps=2, t_inc=False, keff='ok'),
    'synthetic:3ed-notconv': dict(neditions=3, nresp=1, nzones=1, negroups=1, converged=False, keff='not_converged'),
}


def named(name):
    return render(make_spec(**NAMED[name]))


def names_for_c11(tier):
    return list(NAMED) if tier == 'thorough' else ['synthetic:2ed-spectrum', 'synthetic:2ed-time-keff']


if __name__ == '__main__':
    import sys
    sys.stdout.write(named(sys.argv[1] if len(sys.argv) > 1 else 'synthetic:2ed-time-keff'))
    assert os.path.exists(SRC)
