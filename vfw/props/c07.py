"""C07 - chi-square verdict matches the chi-square law on the bins actually used."""
import itertools
import math

import numpy as np
from scipy import special

from ..core.report import Report
from ..core import pool

LEVEL = 'model_checking'
ENGINE = 'E-input'
DESIGN_REF = '5/C07'
TECHNIQUE = ('bounded exhaustive enumeration of inputs (all 1- and 2-bin datasets over a value/error alphabet, all bin-class assignments '
             'for 3-4 bins in 1-d and 2-d shapes, all ordered tuples of representative compared datasets) of the real TestChi2 '
             'against a scalar reference (sum over used bins, ndf, regularised incomplete gamma), incl. every bin permutation')
RULE = ('[also: count histograms as int32 / int64 value arrays (0 ... 4e9) with float errors] ' +
        '(A) every pair of 1-bin and 2-bin datasets over values {-2, 0, 1, 1.3, 4} x errors {0, 0.1, 1} (all zero-error patterns), both '
        'settings of ignore_empty, alpha in {0.01, 0.05, 0.5}; 1-bin datasets also with NaN / inf values and errors when the option is '
        'off; small magnitudes: values {0, 1e-10, 1.1e-10, 5e-9} x errors {0, 1e-12, 1e-9, 0.1} as 1-bin datasets and paired with 5 class '
        'bins (an error of 1e-12 is not an empty bin); (B) every assignment of 6 bin classes (small / large contribution, one zero error, both zero & equal, both zero & '
        'different, NaN value) to 3-4 bins in shapes (3,), (4,), (2,2), both options, with the statistic re-evaluated under every '
        'permutation of the bins; (C) every ordered pair and triple of 8 representative compared datasets (pass, fail, NaN statistic, '
        'infinite statistic, all bins empty, ...) against one reference dataset; non-trivial = inputs with at least one zero error, NaN '
        'or infinity, or with several compared datasets of different verdicts')
ASSUMPTIONS = ['reference upper tail from scipy.special.gammaincc (the code uses scipy.stats.chi2.sf)',
               'with ndf = 0 (all bins ignored) only "does not pass" is compared: there is no chi-square law with 0 degrees of freedom',
               'p-values within 1e-9 (relative) of alpha are not compared (counted as boundary_skipped)']
LEVEL_TEXT = ('Every 1- and 2-bin comparison over a 5-value x 3-error alphabet (all zero-error patterns), every class assignment on 3-4 '
              'bins in 1-d/2-d shapes under every bin permutation, and every ordered pair/triple of representative compared datasets are '
              'evaluated by the real TestChi2 with both settings of ignore_empty and compared with a scalar reference for the statistic, '
              'the number of degrees of freedom, the p-value, the per-dataset oracles and the verdict.')
LEVEL_NOTE = 'scipy.special.gammaincc as independent tail; guard band at the decision boundary; small-scope on the number of bins.'

VALS = [-2.0, 0.0, 1.0, 1.3, 4.0]
ERRS = [0.0, 0.1, 1.0]
SPECIAL = [float('nan'), float('inf')]
TINY_V = [0.0, 1e-10, 1.1e-10, 5e-9]
TINY_E = [0.0, 1e-12, 1e-9, 0.1]
ALPHAS = [0.01, 0.05, 0.5]
#           v1   e1   v2    e2
CLASSES = {'small': (1.0, 0.1, 1.05, 0.1), 'large': (1.0, 0.1, 2.0, 0.1), 'onezero': (1.0, 0.0, 1.1, 0.2),
           'empty-eq': (3.0, 0.0, 3.0, 0.0), 'empty-diff': (3.0, 0.0, 4.0, 0.0), 'nanval': (1.0, 0.1, float('nan'), 0.1)}


def term(v1, e1, v2, e2):
    diff, var = v1 - v2, e1 * e1 + e2 * e2
    err = math.sqrt(var)
    if err == 0:
        rat = math.nan if (diff == 0 or math.isnan(diff)) else math.copysign(math.inf, diff)
    else:
        rat = diff / err
    return rat * rat


def reference(bins, ignore_empty):
    """bins: list of (v1, e1, v2, e2) -> (chi2, ndf, p)"""
    used = [b for b in bins if (not ignore_empty) or b[1] > 0 or b[3] > 0]
    ndf = len(used)
    chi = 0.0
    for b in used:
        chi += term(*b)
    if ndf == 0:
        return chi, 0, math.nan
    if math.isnan(chi):
        return chi, ndf, math.nan
    return chi, ndf, float(special.gammaincc(ndf / 2.0, chi / 2.0))


def close(a, b, rtol):
    a, b = float(a), float(b)
    if math.isnan(a) or math.isnan(b):
        return math.isnan(a) and math.isnan(b)
    if math.isinf(a) or math.isinf(b):
        return a == b
    return abs(a - b) <= rtol * max(abs(a), abs(b)) + 1e-300


def verdict_ref(pval, alpha):
    if math.isnan(pval):
        return False
    if abs(pval - alpha) <= 1e-9 * alpha:
        return None
    return pval > alpha


VALUE_DTYPE = [float]        # the dtype of the value arrays built by mkds (count histograms are integer arrays)


def mkds(vals, errs, shape):
    from valjean.eponine.dataset import Dataset
    return Dataset(np.array(vals, dtype=VALUE_DTYPE[0]).reshape(shape), np.array(errs, dtype=float).reshape(shape))


def judge(rep, family, dsets, shape, ignore, alpha, tagx=''):
    """dsets: list (one per compared dataset) of lists of bins (v1,e1,v2,e2); v1/e1 are the same in all."""
    from valjean.gavroche.stat_tests.chi2 import TestChi2
    ref = mkds([b[0] for b in dsets[0]], [b[1] for b in dsets[0]], shape)
    others = [mkds([b[2] for b in ds], [b[3] for b in ds], shape) for ds in dsets]
    tst = TestChi2(ref, *others, name='c07', alpha=alpha, ignore_empty=ignore)
    res = tst.evaluate()
    case = {'family': family, 'bins(v1,e1,v2,e2) per compared dataset': dsets, 'shape': shape, 'ignore_empty': ignore, 'alpha': alpha}
    flat = [x for ds in dsets for b in ds for x in b]
    verdicts = []
    tag = f'{family}|ignore={ignore}|nds={len(dsets)}{tagx}'
    exp_all = True
    for k, ds in enumerate(dsets):
        chi, ndf, pval = reference(ds, ignore)
        ver = verdict_ref(pval, alpha)
        verdicts.append(ver)
        if int(tst.ndf[k]) != ndf:
            rep.violate(f'C07|ndf|{tag}', f'dataset {k}: ndf={tst.ndf[k]}, reference {ndf}', case, size=len(flat))
        if not close(res.chi2[k], chi, 1e-12):
            rep.violate(f'C07|statistic|{tag}', f'dataset {k}: chi2={res.chi2[k]!r}, reference {chi!r}', case, size=len(flat))
        if ndf > 0 and not close(res.pvalue[k], pval, 1e-9):
            rep.violate(f'C07|pvalue|{tag}', f'dataset {k}: p={res.pvalue[k]!r}, reference {pval!r} (chi2={chi!r}, ndf={ndf})', case, size=len(flat))
        if ver is not None and bool(res.oracles()[k]) != ver:
            rep.violate(f'C07|oracle|{tag}', f'dataset {k}: oracle {bool(res.oracles()[k])}, reference {ver} (p={pval!r})', case, size=len(flat))
        exp_all = None if (ver is None or exp_all is None) else (exp_all and ver)
    if exp_all is None:
        rep.counters['boundary_skipped'] += 1
    elif bool(res) != exp_all:
        clause = 'undefined-passes' if any(math.isnan(reference(ds, ignore)[2]) for ds in dsets) else 'verdict'
        rep.violate(f'C07|{clause}|{tag}', f'verdict {bool(res)}, reference {exp_all}; p-values {[repr(p) for p in res.pvalue]}', case, size=len(flat))
    nont = any(x == 0 or math.isnan(x) or math.isinf(x) for ds in dsets for b in ds for x in (b[1], b[3], b[0], b[2])) \
        or len(set(verdicts)) > 1
    rep.case(nontrivial=(family, repr(dsets), shape, ignore, alpha) if nont else None,
             outcome=(family, ignore, tuple(verdicts)))
    return res


def job_a(args):
    first_v1, ignore = args
    rep = Report()
    one = [(first_v1, e1, v2, e2) for e1 in ERRS for v2 in VALS for e2 in ERRS]
    allb = list(itertools.product(VALS, ERRS, VALS, ERRS))
    for alpha in ALPHAS:
        for b in one:
            judge(rep, 'A1', [[b]], (1,), ignore, alpha)
            for b2 in allb:
                judge(rep, 'A2', [[b, b2]], (2,), ignore, alpha)
    if not ignore:
        spv, spe = VALS + SPECIAL, ERRS + SPECIAL
        for alpha in ALPHAS:
            for e1, v2, e2 in itertools.product(spe, spv, spe):
                judge(rep, 'A1s', [[(first_v1, e1, v2, e2)]], (1,), ignore, alpha)
                judge(rep, 'A1s', [[(v2, e1, first_v1, e2)]], (1,), ignore, alpha)
    if first_v1 == VALS[0]:
        # small magnitudes (deep-penetration scores): an error of 1e-12 is not "zero", such a bin is used like any other
        tiny = list(itertools.product(TINY_V, TINY_E, TINY_V, TINY_E))
        second = [CLASSES[n] for n in ('small', 'large', 'onezero', 'empty-eq', 'empty-diff')]
        for alpha in ALPHAS:
            for b in tiny:
                judge(rep, 'A1t', [[b]], (1,), ignore, alpha, tagx='|tiny')
                for b2 in second:
                    judge(rep, 'A2t', [[b, b2]], (2,), ignore, alpha, tagx='|tiny')
    if first_v1 == VALS[1]:
        # count histograms: integer value arrays (int32 / int64) with float errors, differences up to beyond sqrt(2**31) / 2**32
        counts = [0, 3, 50000, 100000, 4000000000]
        cerrs = [0.0, 10.0, 1000.0]
        for dtype in (np.int32, np.int64):
            VALUE_DTYPE[0] = dtype
            try:
                vals_ok = [c for c in counts if c <= np.iinfo(dtype).max]
                for alpha in (0.01, 0.5):
                    for v1, e1, v2, e2 in itertools.product(vals_ok, cerrs, vals_ok, cerrs):
                        judge(rep, 'Ai', [[(v1, e1, v2, e2)]], (1,), ignore, alpha, tagx=f'|{np.dtype(dtype).name}')
                        judge(rep, 'Ai2', [[(v1, e1, v2, e2), (3, 10.0, 0, 10.0)]], (2,), ignore, alpha, tagx=f'|{np.dtype(dtype).name}')
            finally:
                VALUE_DTYPE[0] = float
    rep.sample({'A2': {'bins(v1,e1,v2,e2)': [one[4], allb[77]], 'ignore_empty': ignore}})
    return rep


def job_b(args):
    shape, first, ignore = args
    rep = Report()
    ncell = int(np.prod(shape))
    names = [n for n in CLASSES if not (ignore and n == 'nanval')]
    for rest in itertools.product(names, repeat=ncell - 1):
        assign = (first,) + rest
        bins = [CLASSES[n] for n in assign]
        for alpha in (0.01, 0.5):
            res = judge(rep, 'B', [bins], shape, ignore, alpha, tagx=f'|ndim={len(shape)}')
        base = res.chi2[0]
        for perm in itertools.permutations(range(ncell)):
            from valjean.gavroche.stat_tests.chi2 import TestChi2
            pb = [bins[i] for i in perm]
            tst = TestChi2(mkds([b[0] for b in pb], [b[1] for b in pb], shape), mkds([b[2] for b in pb], [b[3] for b in pb], shape),
                           name='p', alpha=0.01, ignore_empty=ignore)
            got = tst.evaluate().chi2[0]
            rep.evaluations += 1
            if not close(got, base, 1e-12):
                rep.violate(f'C07|order-dependent|ignore={ignore}|ndim={len(shape)}', f'classes {assign}: chi2 {base!r} becomes {got!r} for permutation {perm}',
                            {'classes': assign, 'permutation': perm, 'shape': shape, 'ignore_empty': ignore}, size=ncell)
                break
    rep.sample({'B': {'classes': (first,) + ('large',) * (ncell - 1), 'shape': shape, 'ignore_empty': ignore}})
    return rep


REPRS = {                     # compared side (v2, e2) for the reference dataset [(1, 0.1), (3, 0)]
    'pass': [(1.05, 0.1), (3.0, 0.2)],
    'fail': [(2.0, 0.1), (3.0, 0.2)],
    'nan-stat': [(1.0, 0.1), (3.0, 0.0)],        # 0/0 in the second bin when nothing is left out
    'inf-stat': [(1.0, 0.1), (4.0, 0.0)],        # x/0
    'nan-value': [(float('nan'), 0.1), (3.0, 0.2)],
    'pass-tight': [(1.0, 0.0), (3.001, 0.01)],
    'all-empty-ref-side': [(1.0, 0.0), (3.0, 0.0)],
    'fail2': [(1.0, 0.1), (9.0, 0.5)],
}


def job_c(args):
    first, ignore = args
    rep = Report()
    refside = [(1.0, 0.1), (3.0, 0.0)]
    names = list(REPRS)
    for nds in (1, 2, 3):
        for rest in itertools.product(names, repeat=nds - 1):
            combo = (first,) + rest
            if ignore and any(n == 'nan-value' for n in combo):
                continue        # finite inputs only when the option is on (as quantified)
            dsets = [[(refside[i][0], refside[i][1], REPRS[n][i][0], REPRS[n][i][1]) for i in range(2)] for n in combo]
            for alpha in ALPHAS:
                judge(rep, 'C', dsets, (2,), ignore, alpha)
    rep.sample({'C': {'compared datasets': (first, 'nan-stat'), 'reference': refside, 'ignore_empty': ignore}})
    return rep


def _call(job):
    return job[0](job[1])


def run(tier, seed):
    jobs = []
    for ignore in (False, True):
        for v1 in VALS:
            jobs.append((job_a, (v1, ignore)))
        shapes = [(3,), (2, 2)] + ([(4,), (1, 3, 1)] if tier == 'thorough' else [])
        for shape in shapes:
            for first in CLASSES:
                if ignore and first == 'nanval':
                    continue
                jobs.append((job_b, (shape, first, ignore)))
        for first in REPRS:
            jobs.append((job_c, (first, ignore)))
    return pool.pmap(_call, jobs, seed)


def replay(case):
    rep = Report()
    dsets = [[tuple(float(x) for x in b) for b in ds] for ds in case['bins(v1,e1,v2,e2) per compared dataset']]
    res = judge(rep, case.get('family', 'replay'), dsets, tuple(case['shape']), case['ignore_empty'], case['alpha'])
    return {'chi2': [repr(c) for c in res.chi2], 'ndf': [int(n) for n in res.test.ndf], 'pvalue': [repr(p) for p in res.pvalue],
            'verdict': bool(res), 'reference(chi2,ndf,p)': [reference(ds, case['ignore_empty']) for ds in dsets],
            'problems': {k: v[0] for k, v in rep.violations.items()}, 'violates': bool(rep.violations)}
