"""C17 - Browser selections return exactly the items that match."""
import itertools

from ..core.report import Report
from ..core import pool
from ..core.snap import deepsnap

LEVEL = 'model_checking'
ENGINE = 'E-input'
DESIGN_REF = '5/C17'
TECHNIQUE = ('bounded exhaustive enumeration of item lists x queries through the real Browser (inverted index) against a naive scan of the '
             'original list, with deep snapshots of the source browser after every query, plus exhaustive chains (depth 2) of filter / '
             'merge and ordered pairs of queries on the same browser')
RULE = ('[ordered pairs / triples of queries over metadata values with equal hashes (-1/-2, 0/2**61-1)] [merges with item-less browsers that carry global variables, on either side, directly and after a filter] ' +
        'item lists of length 0-2 over all 12 item shapes (k1 absent or in {1, "a", (1,2)}; k2 absent or in {1, "a"}) and of length 3 over '
        '6 shapes, data under "results" or under a custom data key holding unhashable data; queries = every assignment of {unset, present '
        'values, absent value} to k1 and k2, an unknown key, and include / exclude subsets of {k1, k2, kx} of total size <= 2; for each: '
        'filter_by content == scan (order, identity of the data objects, items equal up to the bookkeeping "index" key), globals and '
        'data_key preserved, select_by returns the single match or raises NoItem / TooManyItems, keys() / available_values() agree with '
        'the scan, the source browser (content, index, globals) and the input dictionaries are unchanged; the whole query alphabet also on lists of 9-17 '
        '(thorough up to 70) items and their merges (order of the selection beyond the size at which small-integer sets iterate sorted); chains: filter o filter, merge '
        'then filter, filter then merge, and every ordered pair of keyword queries on one browser; non-trivial = queries on lists of >= 2 '
        'items with at least one criterion')
ASSUMPTIONS = ['metadata values are hashable and of distinct types (1 == True == 1.0 collisions are outside the alphabet)',
               'the key "index" is reserved by the Browser (documented) and not used as user metadata',
               'small-scope: <= 3 items, 2 metadata keys']
LEVEL_TEXT = ('Every query of a 1 000+ query alphabet is run on every item list of the alphabet through the real Browser and compared with a '
              'direct scan of the original dictionaries (selection, order, data identity, globals, data key, documented errors); the '
              'source browser and the inputs are snapshotted before and after; depth-2 chains of filter / merge and all ordered pairs of '
              'keyword queries on the same browser are enumerated as well.')
LEVEL_NOTE = 'naive list scan as reference.'

K1 = [None, 1, 'a', (1, 2)]
K2 = [None, 1, 'a']
QV1 = ['unset', 1, 'a', (1, 2), 'zz']
QV2 = ['unset', 1, 'a', 'zz']


def item_shapes():
    return [(a, b) for a in K1 for b in K2]


def make_items(shapes, data_key):
    out = []
    for pos, (va, vb) in enumerate(shapes):
        item = {data_key: [f'data{pos}', {'n': pos}]}           # unhashable data
        if va is not None:
            item['k1'] = va
        if vb is not None:
            item['k2'] = vb
        out.append(item)
    return out


def queries():
    subs = [()] + [(k,) for k in ('k1', 'k2', 'kx')] + list(itertools.combinations(('k1', 'k2', 'kx'), 2))
    incex = [(i, e) for i in subs for e in subs if len(i) + len(e) <= 2]
    out = []
    for qa, qb, qx in itertools.product(QV1, QV2, ('unset', 1)):
        kwargs = {}
        if qa != 'unset':
            kwargs['k1'] = qa
        if qb != 'unset':
            kwargs['k2'] = qb
        if qx != 'unset':
            kwargs['kx'] = qx
        for inc, exc in incex:
            out.append((kwargs, inc, exc))
    return out


def scan(items, kwargs, inc, exc):
    """Indices of the items a direct scan selects."""
    out = []
    for pos, item in enumerate(items):
        if all(k in item and item[k] == v for k, v in kwargs.items()) \
                and all(k in item for k in inc) and not any(k in item for k in exc):
            out.append(pos)
    return out


def strip(item):
    return {k: v for k, v in item.items() if k != 'index'}


def check_query(rep, brw, items, data_key, glob, query, tag, case):
    from valjean.eponine.browser import NoItemBrowserError, TooManyItemsBrowserError
    kwargs, inc, exc = query
    before = deepsnap((brw.content, brw.index, brw.globals, brw.data_key))
    exp = scan(items, kwargs, inc, exc)
    qcase = dict(case, query={'kwargs': {k: repr(v) for k, v in kwargs.items()}, 'include': inc, 'exclude': exc})
    try:
        sub = brw.filter_by(include=inc, exclude=exc, **kwargs)
    except Exception as exc_:  # pylint: disable=broad-except
        rep.violate(f'C17|filter-raises|{type(exc_).__name__}|{tag}', f'filter_by raised {exc_!r}', qcase, size=len(items))
        sub = None
    if sub is not None:
        got = [strip(it) for it in sub.content]
        want = [items[i] for i in exp]
        if got != want:
            rep.violate(f'C17|selection|{tag}|n={len(items)}', f'filter_by selects {got}, a scan selects positions {exp}', qcase, size=len(items))
        elif any(g[data_key] is not w[data_key] for g, w in zip(sub.content, want)):
            rep.violate(f'C17|data-copied|{tag}', 'data objects of the selection are not the original objects', qcase, size=len(items))
        if sub.data_key != data_key:
            rep.violate(f'C17|data-key-lost|{tag}', f'data_key {sub.data_key!r}, source has {data_key!r}', qcase, size=len(items))
        if sub.globals != glob:
            rep.violate(f'C17|globals-lost|{tag}', f'globals {sub.globals!r}, source has {glob!r}', qcase, size=len(items))
        if sub.data_key == data_key:
            allkeys = {k for it in got for k in it if k != data_key} | ({'index'} if got else set())
            if set(sub.keys()) != allkeys:
                rep.violate(f'C17|keys|{tag}', f'keys() {sorted(sub.keys())}, scan {sorted(allkeys)}', qcase, size=len(items))
            for key in ('k1', 'k2'):
                vals = {it[key] for it in got if key in it}
                if set(sub.available_values(key)) != vals:
                    rep.violate(f'C17|available-values|{tag}', f'available_values({key}) {sub.available_values(key)}, scan {vals}', qcase, size=len(items))
    try:
        one = brw.select_by(include=inc, exclude=exc, **kwargs)
        outcome = 'item'
    except NoItemBrowserError:
        one, outcome = None, 'none'
    except TooManyItemsBrowserError:
        one, outcome = None, 'many'
    except Exception as exc_:  # pylint: disable=broad-except
        one, outcome = None, 'raises'
        rep.violate(f'C17|select-raises|{type(exc_).__name__}|{tag}', f'select_by raised {exc_!r}', qcase, size=len(items))
    want_out = 'none' if not exp else ('item' if len(exp) == 1 else 'many')
    if outcome != 'raises' and outcome != want_out:
        rep.violate(f'C17|select|{want_out}-vs-{outcome}|{tag}', f'select_by -> {outcome}, a scan finds {len(exp)} item(s)', qcase, size=len(items))
    elif outcome == 'item' and (strip(one) != items[exp[0]] or one[data_key] is not items[exp[0]][data_key]):
        rep.violate(f'C17|select|wrong-item|{tag}', f'select_by returned {strip(one)}, a scan finds {items[exp[0]]}', qcase, size=len(items))
    if deepsnap((brw.content, brw.index, brw.globals, brw.data_key)) != before:
        rep.violate(f'C17|source-modified|{tag}', 'the queried browser (content / index / globals) changed', qcase, size=len(items))
    rep.case(nontrivial=True if (len(items) >= 2 and (kwargs or inc or exc)) else None, outcome=(want_out,))
    return exp


def job(args):
    from valjean.eponine.browser import Browser
    shapes_list, data_key = args
    rep = Report()
    qrs = queries()
    kwq = [q for q in qrs if not q[1] and not q[2]]
    glob = {'g': [1, 2], 'name': 'globals'}
    tag = 'default-key' if data_key == 'results' else 'custom-key'
    for shapes in shapes_list:
        items = make_items(shapes, data_key)
        inputs = deepsnap(items)
        case = {'items(k1,k2)': shapes, 'data_key': data_key}
        try:
            brw = Browser(items, data_key=data_key, global_vars=glob)
        except Exception as exc:  # pylint: disable=broad-except
            rep.violate(f'C17|build-raises|{type(exc).__name__}|{tag}', f'Browser() raised {exc!r}', case)
            continue
        for query in qrs:
            check_query(rep, brw, items, data_key, glob, query, tag, case)
        if deepsnap(items) != inputs:
            rep.violate(f'C17|inputs-modified|{tag}', 'the input dictionaries were modified', case)
        # ordered pairs of keyword queries on the same browser (hidden state between queries)
        if len(shapes) >= 2:
            for qone, qtwo in itertools.product(kwq, repeat=2):
                fresh = Browser(items, data_key=data_key, global_vars=glob)
                try:
                    fresh.filter_by(**qone[0])
                    sub = fresh.filter_by(**qtwo[0])
                    got = [strip(it) for it in sub.content]
                except Exception as exc:  # pylint: disable=broad-except
                    got = repr(exc)
                rep.evaluations += 1
                want = [items[i] for i in scan(items, qtwo[0], (), ())]
                if got != want:
                    rep.violate(f'C17|history|{tag}', f'after filter_by({qone[0]}), filter_by({qtwo[0]}) selects {got}, a scan {want}',
                                dict(case, first=repr(qone[0]), second=repr(qtwo[0])), size=len(shapes))
        # chains
        if 1 <= len(shapes) <= 2:
            for qone, qtwo in itertools.product(kwq[::3], qrs[::7]):
                rep.evaluations += 1
                try:
                    sub = brw.filter_by(**qone[0]).filter_by(include=qtwo[1], exclude=qtwo[2], **qtwo[0])
                    got = [strip(it) for it in sub.content]
                    gkey = sub.data_key
                except Exception as exc:  # pylint: disable=broad-except
                    got, gkey = repr(exc), data_key
                mid = [items[i] for i in scan(items, qone[0], (), ())]
                want = [mid[i] for i in scan(mid, qtwo[0], qtwo[1], qtwo[2])]
                if got != want or gkey != data_key:
                    clause = 'data-key-lost' if gkey != data_key or 'unhashable' in str(got) else 'chain-filter-filter'
                    rep.violate(f'C17|{clause}|{tag}', f'filter({qone[0]}) then filter({qtwo}) gives {got} (data_key {gkey!r}), scan {want}',
                                dict(case, chain=[repr(qone), repr(qtwo)]), size=len(shapes))
            other_items = make_items([(1, 'a'), ('a', None)], data_key)
            other = Browser(other_items, data_key=data_key, global_vars={'g': [3], 'extra': 1})
            snap_other = deepsnap((other.content, other.index, other.globals))
            snap_self = deepsnap((brw.content, brw.index, brw.globals))
            try:
                merged = brw.merge(other)
                both = items + other_items
                if [strip(it) for it in merged.content] != both:
                    rep.violate(f'C17|merge|{tag}', f'merge gives {[strip(i) for i in merged.content]}, expected the concatenation', case)
                if merged.data_key != data_key or merged.globals != {'g': [3], 'name': 'globals', 'extra': 1}:
                    rep.violate(f'C17|merge-meta|{tag}', f'merge: data_key {merged.data_key!r}, globals {merged.globals}', case)
                for query in qrs[::5]:
                    check_query(rep, merged, both, data_key, merged.globals, query, tag + '|merged', dict(case, merged_with='[(1,a),(a,None)]'))
                    rep.evaluations += 1
                    left = brw.filter_by(include=query[1], exclude=query[2], **query[0])
                    right = other.filter_by(include=query[1], exclude=query[2], **query[0])
                    if left.data_key == right.data_key:
                        fm = left.merge(right)
                        want = [both[i] for i in scan(both, *query)]
                        if [strip(i) for i in fm.content] != want:
                            rep.violate(f'C17|chain-filter-merge|{tag}', f'filter then merge gives {[strip(i) for i in fm.content]}, scan {want}',
                                        dict(case, query=repr(query)))
                        # a selection keeps the global variables of its browser even when it retains no item: the merge of two
                        # selections carries the merged globals whatever the number of items on either side
                        if fm.globals != merged.globals:
                            side = 'right-empty' if not right.content else ('left-empty' if not left.content else 'both-populated')
                            rep.violate(f'C17|chain-filter-merge|globals|{side}|{tag}', f'filter then merge: globals {fm.globals}, merging the '
                                        f'unfiltered browsers gives {merged.globals}', dict(case, query=repr(query)))
                for empty_side in ('right', 'left'):
                    hollow = Browser([], data_key=data_key, global_vars={'g': [3], 'extra': 1} if empty_side == 'right' else dict(brw.globals))
                    full = brw if empty_side == 'right' else other
                    got = full.merge(hollow) if empty_side == 'right' else hollow.merge(full)
                    rep.evaluations += 1
                    if got.globals != {'g': [3], 'name': 'globals', 'extra': 1} or [strip(i) for i in got.content] != (items if empty_side == 'right' else other_items):
                        rep.violate(f'C17|merge-empty|{empty_side}|{tag}', f'merge with a browser without items ({empty_side}): globals {got.globals}, '
                                    f'{len(got.content)} item(s)', case)
            except Exception as exc:  # pylint: disable=broad-except
                rep.violate(f'C17|merge-raises|{type(exc).__name__}|{tag}', f'merge / chain raised {exc!r}', case)
            if deepsnap((other.content, other.index, other.globals)) != snap_other or deepsnap((brw.content, brw.index, brw.globals)) != snap_self:
                rep.violate(f'C17|source-modified|merge|{tag}', 'merge modified one of the browsers', case)
    rep.sample({'items(k1,k2)': shapes_list[len(shapes_list) // 2], 'data_key': data_key,
                'query': {'kwargs': {'k1': 1}, 'include': ['k2'], 'exclude': []}})
    return rep


def job_large(args):
    """Lists of 9-17 items: the id sets of the inverted index no longer iterate in increasing order, so the 'original order' clause
    is exercised (below 9 items a set of small integers happens to iterate sorted)."""
    from valjean.eponine.browser import Browser
    nitems, data_key = args
    rep = Report()
    shapes = [(K1[1 + (i * 7) % 3] if i % 4 else None, K2[(i * 5) % 3]) for i in range(nitems)]
    items = make_items(shapes, data_key)
    glob = {'g': [1, 2], 'name': 'globals'}
    brw = Browser(items, data_key=data_key, global_vars=glob)
    case = {'items(k1,k2)': shapes, 'data_key': data_key}
    for query in queries():
        check_query(rep, brw, items, data_key, glob, query, f'large|n={nitems}', case)
    other_items = make_items(shapes[::-1], data_key)
    other = Browser(other_items, data_key=data_key, global_vars=glob)
    merged = brw.merge(other)
    both = items + other_items
    for query in queries()[::3]:
        check_query(rep, merged, both, data_key, glob, query, f'large-merged|n={2 * nitems}', dict(case, merged_with='reversed copy'))
    rep.sample({'large list': shapes[:6], 'n': nitems})
    return rep


def _call(job_):
    return job_[0](job_[1])


COLLIDING = [-1, -2, 0, 2 ** 61 - 1, 'a']         # hash(-1) == hash(-2), hash(0) == hash(2**61 - 1) in CPython: unequal values, equal hashes


def job_collide(args):
    """Metadata values that are different but hash alike: every ordered pair (and triple) of keyword queries on one browser."""
    (data_key,) = args
    from valjean.eponine.browser import Browser
    rep = Report()
    glob = {'g': [1, 2], 'name': 'globals'}
    shapes = [(v, w) for v in COLLIDING for w in (1, -1, -2)]
    items = make_items(shapes, data_key)
    case = {'items(k1,k2)': shapes, 'data_key': data_key}
    single = [{'k1': v} for v in COLLIDING] + [{'k2': w} for w in (1, -1, -2)] + [{'k1': v, 'k2': w} for v in (-1, -2) for w in (-1, -2)]
    for depth in (2, 3):
        for seq in itertools.product(single, repeat=depth):
            if depth == 3 and not all('k1' in q and 'k2' not in q for q in seq):
                continue
            brw = Browser(items, data_key=data_key, global_vars=glob)
            for pos, query in enumerate(seq):
                rep.evaluations += 1
                want = [items[i] for i in scan(items, query, (), ())]
                try:
                    got = [strip(it) for it in brw.filter_by(**query).content]
                except Exception as exc:  # pylint: disable=broad-except
                    got = repr(exc)
                if got != want:
                    rep.violate(f'C17|history|hash-colliding-values|query#{pos + 1}', f'after {list(seq[:pos])}, filter_by({query}) selects '
                                f'{[(i.get("k1"), i.get("k2")) for i in got] if isinstance(got, list) else got}, a scan '
                                f'{[(i.get("k1"), i.get("k2")) for i in want]}', dict(case, queries=[repr(q) for q in seq]), size=depth)
                    break
            rep.case(nontrivial=repr(seq), outcome=('collide', depth))
    rep.sample(dict(case, queries=[repr({'k1': -1}), repr({'k1': -2})]))
    return rep


def run(tier, seed):
    shapes = item_shapes()
    lists = [()] + [(s,) for s in shapes] + list(itertools.product(shapes, repeat=2))
    small = [(1, None), (1, 1), ('a', 1), (None, 'a'), ((1, 2), None), (None, None)]
    lists += list(itertools.product(small, repeat=3))
    if tier == 'thorough':
        lists += list(itertools.product(small[:4], repeat=4))
    jobs = []
    for data_key in ('results', 'payload'):
        for i in range(0, len(lists), 12):
            jobs.append((job, (lists[i:i + 12], data_key)))
        for nitems in ((9, 12, 17) if tier == 'quick' else (9, 10, 12, 17, 33, 70)):
            jobs.append((job_large, (nitems, data_key)))
        jobs.append((job_collide, (data_key,)))
    rep = pool.pmap(_call, jobs, seed)
    rep.extra['queries'] = len(queries())
    rep.extra['item_lists'] = len(lists) * 2
    return rep


def replay(case):
    from valjean.eponine.browser import Browser
    rep = Report()
    shapes = [tuple(tuple(v) if isinstance(v, list) else v for v in s) for s in case['items(k1,k2)']]
    items = make_items(shapes, case['data_key'])
    glob = {'g': [1, 2], 'name': 'globals'}
    brw = Browser(items, data_key=case['data_key'], global_vars=glob)
    if 'query' in case and isinstance(case['query'], dict):
        import ast
        kwargs = {k: ast.literal_eval(v) for k, v in case['query']['kwargs'].items()}
        check_query(rep, brw, items, case['data_key'], glob, (kwargs, tuple(case['query']['include']), tuple(case['query']['exclude'])), 'replay', case)
    return {'problems': {k: v[0] for k, v in rep.violations.items()}, 'violates': bool(rep.violations)}
