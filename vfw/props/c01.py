"""C01 - a task never starts before its dependencies finished and published results."""
from ..sched import check, configs as C

LEVEL = 'model_checking'
TECHNIQUE = ('stateless model checking of the real scheduler: exhaustive enumeration of thread interleavings '
             'up to a preemption bound (iterative context bounding) under a controlled scheduler')
RULE = ('[configurations also cover: a DepGraph used as a node, re-runs with a DONE middle task, a second schedule() on the same backend in which a task gained a dependency; dependency outcomes incl. self-clobbering, half-applied and non-final-status results] ' +
        'every schedule (choice of the next thread at every synchronisation operation: lock acquire, condition wait/resume, '
        'queue put/get/task_done/join, thread start/join, entry of do()) of Scheduler.schedule() with at most `preemption_bound` '
        'preemptions, for each listed configuration (graph x worker count x dependency outcome); oracle evaluated on every '
        'execution from the probe log; non-trivial = executions with at least one preemption; states = distinct abstract global '
        'states (pending op per thread, status/payload/clock presence per task, queue content) seen at scheduling points')
ASSUMPTIONS = [
    'GIL semantics: interleaving at synchronisation operations, clock reads (POR mode) and do() entry, not between bytecodes (DESIGN.md 7)',
    'queue.Queue / threading.Condition / RLock are modelled according to their documented semantics, not executed',
    'complete only up to the stated preemption bound per configuration; graphs <= 3-4 tasks, <= 3 workers',
]


def plan(tier):
    out = []
    two = 2
    # A: 2-task chain, hard and soft, every outcome of the dependency, dependency submitted before / after the dependent
    for edges in (C.CHAIN2, C.CHAIN2S):
        for dep_out in C.ALL:
            out.append((C.cfg(two, edges, [dep_out, 'ok'], 2), 2))
            if tier == 'thorough' or dep_out in ('ok', 'badupdate'):
                out.append((C.cfg(two, C.backward_variants(edges, two), ['ok', dep_out], 2), 2))
            out.append((C.cfg(two, edges, [dep_out, 'ok'], 1), 3 if tier == 'thorough' or dep_out in ('ok', 'raise', 'fail', 'badupdate') else 2))
    out.append((C.cfg(two, C.CHAIN2, ['ok', 'ok'], 3), 0 if tier == 'quick' else 1))
    # B: 3-task shapes with mixed edges, 2 workers
    heavy = [C.FORK3HS, C.JOIN3HS] if tier == 'quick' else \
        [C.FORK3HS, C.JOIN3HS, C.CHAIN3HS, C.CHAIN3SH, C.CHAIN3, C.TRI3, C.JOIN3SS, C.FORK3, C.JOIN3]
    for edges in heavy:
        out.append((C.cfg(3, edges, ['ok'] * 3, 2), 2))
    # B': re-runs - the middle task of a 3-chain is DONE from an earlier run (with clocks), the other two must run
    for edges in (C.CHAIN3, C.CHAIN3HS, C.CHAIN3SH):
        out.append((C.cfg(3, edges, ['ok'] * 3, 2, init=[(1, 'DONE', True)]), 1))
        out.append((C.cfg(3, edges, ['ok'] * 3, 1, init=[(1, 'DONE', True)]), 2))
        if tier == 'thorough':
            out.append((C.cfg(3, edges, ['ok'] * 3, 2, init=[(1, 'DONE', True)]), 2))
            out.append((C.cfg(3, edges, ['ok'] * 3, 2, init=[(1, 'DONE', True), (2, 'DONE', True)]), 1))
    # B'': a DepGraph used as a node of the hard graph (flattened by the scheduler), added before or after the plain tasks
    for edges in (C.JOIN3, C.CHAIN3, C.FORK3HS) if tier == 'quick' else (C.JOIN3, C.CHAIN3, C.FORK3, C.FORK3HS, C.TRI3, C.JOIN3HS):
        for members in ((0,), (1,), (2,), (0, 1), (1, 2), (0, 2)):
            for first in (True, False):
                out.append((C.cfg(3, edges, ['ok'] * 3, 2, nest=(members, first)), 1))
    # B''': a second schedule() on the same backend object in which a task has gained a dependency (hard or soft)
    for second in (C.CHAIN2, C.CHAIN2S, C.backward_variants(C.CHAIN2, two)):
        out.append((C.cfg(two, [], ['ok', 'ok'], 2, second=second), 2 if tier == 'thorough' else 1))
    if tier == 'thorough':
        out.append((C.cfg(3, C.CHAIN2, ['ok'] * 3, 2, second=C.JOIN3HS), 1))
    # B'''': a dependency whose update carries its own status first (outcome `okstatus`), next to an independent task that can wake
    # the master up in the middle of a piecewise apply()
    for edges in ([(2, 0, 'h')], [(2, 0, 's')], [(1, 0, 'h')]):
        out.append((C.cfg(3, edges, ['okstatus', 'ok', 'ok'], 2), 2 if tier == 'thorough' else 1))
    out.append((C.cfg(two, C.CHAIN2, ['okstatus', 'ok'], 2), 2))
    # C: every forward DAG on 3 tasks, every edge hard or soft
    for edges in C.forward_dags(3):
        out.append((C.cfg(3, edges, ['ok'] * 3, 2), 1))
        out.append((C.cfg(3, edges, ['ok'] * 3, 1), 2))
    if tier == 'thorough':
        for edges in (C.CHAIN2, C.CHAIN2S):
            out.append((C.cfg(two, edges, ['ok', 'ok'], 2), 3))
            out.append((C.cfg(two, edges, ['ok', 'ok'], 3), 2))
            for dep_out in C.BAD:
                out.append((C.cfg(two, edges, [dep_out, 'ok'], 3), 1))
        for edges in C.forward_dags(3):
            out.append((C.cfg(3, C.backward_variants(edges, 3), ['ok'] * 3, 2), 1))
            out.append((C.cfg(3, edges, ['ok'] * 3, 3), 0))
            for k in range(3):
                for bad in ('raise', 'badupdate'):
                    outs = ['ok'] * 3
                    outs[k] = bad
                    out.append((C.cfg(3, edges, outs, 2), 1))
        out.append((C.cfg(4, C.DIAMOND4, ['ok'] * 4, 2), 1))
        out.append((C.cfg(4, C.DIAMOND4, ['ok'] * 4, 3), 0))
    return out


def run(tier, seed):
    rep = check.run_configs('C01', plan(tier), seed, 420 if tier == 'quick' else 3000)
    if tier == 'thorough':      # all interleavings (sleep sets) of the smallest configurations
        rep.merge(check.run_por('C01', [C.cfg(2, C.CHAIN2, ['ok', 'ok'], 1), C.cfg(2, C.CHAIN2S, ['badupdate', 'ok'], 1), C.cfg(1, [], ['ok'], 2)], seed))
    return rep


def replay(case):
    return check.replay(case)


ENGINE = 'E-sched'
DESIGN_REF = '4/C01'
LEVEL_TEXT = ("Every interleaving of the master and worker threads of the real QueueScheduling code at every synchronisation operation, up to 2 preemptions (3 for 1 worker; bound per configuration in the evidence), for all 2-task chains (hard/soft, dependency submitted before/after its dependent, all 8 outcomes of the dependency) all 27 hard/soft forward DAGs on 3 tasks with 1-2 workers, and 3-chains whose middle task is DONE from an earlier run, (3 workers at bound 0-1): at every start of a probe task's do() each dependency shows its final status, has finished, and its complete update (own entry, nested mapping, shared mapping) is readable. Exhaustive within the bound: a violation needing more preemptions or a larger graph is out of reach.")
LEVEL_NOTE = ('Controlled scheduler models threading/queue/time semantics (DESIGN.md 2.1, 7); GIL-atomic dictionary operations; bounded preemptions.')
