"""C12 - a rendered report shows a failure mark exactly for the results that failed."""
import itertools

import numpy as np

from ..core.report import Report
from ..core import pool
from . import results_kit as kit

LEVEL = 'model_checking'
ENGINE = 'E-input'
DESIGN_REF = '5/C12'
TECHNIQUE = ('bounded exhaustive enumeration of results (every result kind x dataset shape / memory layout x failing-bin pattern x number '
             'of datasets, every multiset of statuses / verdicts for the statistics kinds) x verbosity x representer through the real '
             'representers and rst formatter; the emitted reStructuredText is parsed back with docutils and compared cell by cell with '
             'an independently built expectation (text and highlight of every cell)')
RULE = ('[session: every ordered pair of results of a family (statistics of tasks / tests / labels, metadata, equal, Student, Holm) is formatted in a row by ONE Rst object at every verbosity and compared with a fresh formatter] ' +
        'result kinds equal / approx-equal / Student / Bonferroni / Holm-Bonferroni on shapes (), (1,), (3,), (2,2) [C and Fortran order], '
        '(1,3,1) with every failing-bin pattern (2^n, n <= 4) for 1 dataset and every pattern pair for 2 datasets (n <= 3); metadata with '
        'every agreement pattern on <= 3 keys; statistics of tasks (every multiset of <= 3 statuses), of tests (every multiset of <= 3 '
        'verdicts incl. missing results) and by labels (every assignment of verdict x label to <= 3 results); failed evaluation; each at '
        'the 6 verbosities through TableRepresenter, FullTableRepresenter, FullRepresenter and Rst.format_result. Oracle: rendering does '
        'not raise; the rst parses without warning; a highlight / KO mark is present iff the (part of the) result is false; in per-bin '
        'tables every cell reads back as the formatted input and the marked rows are exactly the failing bins; the same after every '
        'slice table[a:b] and every join of two tables, and for tables with N-d columns (multi-dimensional datasets, C and Fortran order) after every slice along the first two axes, copy.join(copy), copy.join(original) and table[:k].join(table[k:]), compared as multisets of rows (cells + marks) with one-cell tables cut out by plain indexing; non-trivial = cases with at least one failing item, a multi-dimensional shape or '
        'several datasets')
ASSUMPTIONS = ['docutils parsing is the definition of valid reStructuredText',
               'plot templates carry no text: they are produced (no exception allowed) but not inspected',
               'SILENT verbosity: only "does not raise" is required',
               'small-scope: <= 4 bins, <= 2 compared datasets, <= 3 items in statistics']
LEVEL_TEXT = ('Every small result of every kind with a built-in representation is rendered at every verbosity by every table-producing '
              'representer and by the rst formatter; the text is parsed back with docutils and every table cell (text and highlight) is '
              'compared with an expectation built directly from the inputs, so that marks exist exactly for failing results and on exactly '
              'the failing bins; tables are also sliced at every position and joined pairwise. Exhaustive over this alphabet.')
LEVEL_NOTE = 'docutils trusted; number format {:11.6g} as documented.'

NUM = '{:11.6g}'


# ------------------------------------------------------------------ rst parsing
def parse_rst(text):
    """Returns (system messages >= WARNING, tables, marked inline texts outside tables).
    table = list of rows, row = list of (text, marked)."""
    from docutils.core import publish_doctree
    from docutils import nodes
    from docutils.parsers.rst import roles
    import io
    roles.register_generic_role('ref', nodes.emphasis)      # Sphinx cross-reference role: reports are built by Sphinx
    warn = io.StringIO()
    tree = publish_doctree(text, settings_overrides={'report_level': 2, 'halt_level': 5, 'warning_stream': warn})
    msgs = [m.astext() for m in tree.traverse(nodes.system_message) if m['level'] >= 2]
    tables = []
    for tab in tree.traverse(nodes.table):
        rows = []
        for row in tab.traverse(nodes.row):
            cells = []
            for ent in row.traverse(nodes.entry):
                marked = any('hl' in inl.get('classes', ()) for inl in ent.traverse(nodes.inline))
                cells.append((ent.astext().strip(), marked))
            rows.append(cells)
        tables.append(rows)
    loose = []
    for inl in tree.traverse(nodes.inline):
        if 'hl' in inl.get('classes', ()):
            par = inl.parent
            while par is not None and not isinstance(par, nodes.table):
                par = par.parent
            if par is None:
                loose.append(inl.astext())
    return msgs, tables, loose


def render(templates):
    """Text of the table / text templates (plot templates are skipped)."""
    from valjean.javert.rst import RstFormatter
    from valjean.javert.templates import PlotTemplate
    fmt = RstFormatter()
    out = []
    for tpl in templates:
        if isinstance(tpl, PlotTemplate):
            continue
        out.append(str(fmt.template(tpl)))
    return '\n'.join(out)


def fnum(val):
    return NUM.format(val).strip()


# ------------------------------------------------------------------ expectations for per-bin tables
def expected_bins(dsref):
    """Column(s) of bin labels in C order, for non-trivial dimensions."""
    shape = dsref.value.shape
    cols = []
    for axis, (name, arr) in enumerate(dsref.bins.items()):
        if shape[axis] < 2:
            continue
        if arr.size == shape[axis] + 1:
            labels = [f'{a:.4g} - {b:.4g}' for a, b in zip(arr[:-1], arr[1:])]
        else:
            labels = [f'{a:.4g}' for a in arr]
        cols.append((name, axis, labels))
    return cols


def expected_table(kind, result, only_failing):
    """(headers, rows) expected for the per-bin table of a dataset result; row = list of (text, marked)."""
    test = result.test
    dsref = test.dsref
    shape = dsref.value.shape
    bcols = expected_bins(dsref) if shape != () else []
    if kind == 'student':
        oracles = [np.asarray(o) for o in result.oracles()]
    elif kind == 'equal':
        oracles = [np.asarray(o) for o in result.equal]
    else:
        oracles = [np.asarray(o) for o in result.approx_equal]
    multi = len(test.datasets) > 1
    heads = [c[0] for c in bcols]
    if kind == 'student':
        heads += [f'v({dsref.name})', f'σ({dsref.name})']
        for dst in test.datasets:
            heads += [f'v({dst.name})', f'σ({dst.name})'] + ([f't({dst.name})', f'Student({dst.name})?'] if multi else ['t', 'Student?'])
    else:
        word = 'equal' if kind == 'equal' else 'approx equal'
        heads += [dsref.name]
        for dst in test.datasets:
            heads += [dst.name, f'{word}({dst.name})?' if multi else f'{word}?']
    rows = []
    indices = list(np.ndindex(*shape)) if shape != () else [()]
    for idx in indices:
        failing = any(not bool(orc[idx]) for orc in oracles)
        if only_failing and not failing:
            continue
        row = [(labels[idx[axis]], False) for _, axis, labels in bcols]
        if kind == 'student':
            row += [(fnum(dsref.value[idx]), False), (fnum(dsref.error[idx]), False)]
            for dst, tst, orc in zip(test.datasets, result.tstud, oracles):
                row += [(fnum(dst.value[idx]), False), (fnum(dst.error[idx]), False), (fnum(np.asarray(tst)[idx]), False),
                        (str(bool(orc[idx])), not bool(orc[idx]))]
        else:
            row += [(fnum(dsref.value[idx]), False)]
            for dst, orc in zip(test.datasets, oracles):
                row += [(fnum(dst.value[idx]), False), (str(bool(orc[idx])), not bool(orc[idx]))]
        rows.append(row)
    return heads, rows


def which_table(kind, verdict, verb):
    """What the documented verbosity dispatch yields for a dataset result: 'none', 'summary', 'full', 'failing'."""
    name = verb.name
    if kind == 'equal':
        if verdict:
            return 'full' if name == 'FULL_DETAILS' else 'none'
        return 'summary' if name in ('SILENT', 'SUMMARY') else 'full'
    if kind == 'approx':
        if name == 'SILENT' and verdict:
            return 'none'
        return 'summary' if name == 'SUMMARY' else 'full'
    if kind == 'student':
        if name == 'SILENT':
            return 'none'
        if name == 'SUMMARY':
            return 'summary'
        if name in ('DEFAULT', 'INTERMEDIATE'):
            return 'summary' if verdict else 'failing'
        return 'full'
    raise ValueError(kind)


def compare_table(got, heads, rows, subset_ok=False):
    """got = parsed table (header row first). Returns a problem text or ''.
    subset_ok: the table may show only some of the bins (which verbosity shows what is not part of the property), but every
    shown row must be a correct row and every failing bin must be shown."""
    if subset_ok and got and [c[0] for c in got[0]] == heads:
        shown = [tuple(r) for r in got[1:]]
        full = {tuple(r) for r in rows}
        for row in shown:
            if row not in full:
                same_text = [r for r in full if [c[0] for c in r] == [c[0] for c in row]]
                if same_text:
                    exp = same_text[0]
                    j = next(i for i, (a, b) in enumerate(zip(row, exp)) if a != b)
                    return f'row {[c[0] for c in row][:3]} column {heads[j]!r} ({row[j][0]}): highlighted={row[j][1]}, expected {exp[j][1]}'
                return f'row {[c[0] for c in row]} is not a row of the inputs'
        missing = [r for r in full if any(c[1] for c in r) and r not in shown]
        if missing:
            return f'failing bin {[c[0] for c in missing[0]][:3]} is not shown (highlighted rows must be exactly the failing bins)'
        if len(set(shown)) != len(shown):
            return 'a bin is shown twice'
        return ''
    if not got:
        return 'empty table'
    ghead = [c[0] for c in got[0]]
    if ghead != heads:
        return f'headers {ghead}, expected {heads}'
    # the order of the rows is not part of the property (it follows the memory layout of the arrays): compare as sets of rows
    body = sorted(got[1:], key=lambda r: [c[0] for c in r])
    rows = sorted(rows, key=lambda r: [c[0] for c in r])
    if len(body) != len(rows):
        return f'{len(body)} rows, expected {len(rows)} ({[r[0][0] for r in body]} vs {[r[0][0] for r in rows]})'
    for i, (grow, erow) in enumerate(zip(body, rows)):
        if len(grow) != len(erow):
            return f'row {i}: {len(grow)} cells, expected {len(erow)}'
        for j, ((gtxt, gmark), (etxt, emark)) in enumerate(zip(grow, erow)):
            if gtxt != etxt:
                return f'row {i} column {heads[j]!r}: reads {gtxt!r}, expected {etxt!r}'
            if gmark != emark:
                return f'row {i} column {heads[j]!r} ({gtxt}): highlighted={gmark}, expected {emark}'
    return ''


# ------------------------------------------------------------------ one rendering
REPRS = ('table', 'fulltable', 'full', 'rst')


def templates_for(rname, result, verb):
    from valjean.javert import representation as rpr
    from valjean.javert.rst import Rst
    if rname == 'rst':
        lines = Rst(rpr.Representation(rpr.FullRepresenter(), verbosity=verb)).format_result(result)
        return None, '\n'.join(lines)
    cls = {'table': rpr.TableRepresenter, 'fulltable': rpr.FullTableRepresenter, 'full': rpr.FullRepresenter}[rname]
    tpls = rpr.Representation(cls(), verbosity=verb)(result)
    return tpls, render(tpls)


def judge_dataset(rep, kind, result, case, shape_tag):
    """All verbosities x representers for one dataset result (equal/approx/student/bonferroni/holm)."""
    from valjean.javert.verbosity import Verbosity
    verdict = bool(result)
    shape = result.test.dsref.value.shape if hasattr(result.test, 'dsref') else result.first_test_res.test.dsref.value.shape
    # plot templates only accept arrays without trivial dimensions (CurveElements documents it): the representers that also
    # build plots are exercised on shapes without unit dimensions, the table representers on every shape
    reprs = REPRS if (len(shape) < 2 or 1 not in shape) else ('table', 'fulltable')
    for verb in Verbosity:
        for rname in reprs:
            ctag = f'{kind}|{rname}|{verb.name}|{shape_tag}'
            ccase = dict(case, representer=rname, verbosity=verb.name)
            try:
                tpls, text = templates_for(rname, result, verb)
                msgs, tables, loose = parse_rst(text)
            except Exception as exc:  # pylint: disable=broad-except
                rep.violate(f'C12|raises|{type(exc).__name__}|{kind}|{shape_tag}', f'{rname} at {verb.name} raised {exc!r}', ccase, size=len(str(case)))
                rep.case(nontrivial=None, outcome=('raises', kind))
                continue
            rep.case(nontrivial=(repr(case), rname, verb.name) if (not verdict or len(shape_tag) > 6) else None,
                     outcome=(kind, verb.name, 'marks' if (loose or any(c[1] for t in tables for r in t for c in r)) else 'plain'))
            if msgs:
                rep.violate(f'C12|invalid-rst|{ctag}', f'docutils: {msgs[0][:200]}', ccase)
            if verb.name == 'SILENT':
                continue
            if kind in ('bonferroni', 'holm'):
                judge_composite(rep, kind, result, rname, verb, tables, loose, ctag, ccase)
                continue
            marks = bool(loose) or any(c[1] for t in tables for r in t for c in r)
            if marks != (not verdict):
                rep.violate(f'C12|mark-vs-verdict|{kind}|{rname}|{verb.name}', f'verdict {verdict} but failure mark present={marks}', ccase)
            # whatever per-bin table is shown at this verbosity must consist of correct rows and hold every failing bin
            heads, rows = expected_table(kind, result, False)
            for tab in tables:
                prob = compare_table(tab, heads, rows, subset_ok=True)
                if prob:
                    clause = 'highlight-rows' if ('highlighted' in prob or 'not shown' in prob) else 'cells'
                    rep.violate(f'C12|{clause}|{ctag}', prob, ccase)


def judge_composite(rep, kind, result, rname, verb, tables, loose, ctag, ccase):
    """Bonferroni / Holm: own table (+ first test tables with the Full representers); each part judged on its own result."""
    from valjean.javert.verbosity import Verbosity
    verdict = bool(result)
    own_tables = [t for t in tables if t and t[0] and t[0][0][0] == 'test']
    first_tables = [t for t in tables if t not in own_tables]
    word = 'Bonferroni test' if kind == 'bonferroni' else 'Holm-Bonferroni test'
    own_loose = [x for x in loose if x == 'KO'] if not own_tables else []
    if verb.name == 'SUMMARY':
        # one KO text for the correction itself; the Full representers add the first test at verbosity-1 / same
        pass
    own_marks = any(c[1] for t in own_tables for r in t for c in r)
    nds = len(result.first_test_res.test.datasets)
    if own_tables:
        tab = own_tables[0]
        if len(tab) - 1 != nds:
            rep.violate(f'C12|cells|{ctag}', f'{len(tab) - 1} rows in the {kind} table for {nds} compared datasets', ccase)
        else:
            for k, row in enumerate(tab[1:]):
                exp_fail = not bool(result.oracles()[k])
                row_marked = any(c[1] for c in row)
                if row_marked != exp_fail:
                    rep.violate(f'C12|highlight-rows|{ctag}', f'{kind} table row {k} ({row[0][0]}): highlighted={row_marked}, dataset rejected={exp_fail}', ccase)
                if row[-1][0] != str(not exp_fail):
                    rep.violate(f'C12|cells|{ctag}', f'{kind} table row {k}: verdict cell reads {row[-1][0]!r}', ccase)
        if own_marks != (not verdict):
            rep.violate(f'C12|mark-vs-verdict|{kind}|{rname}|{verb.name}', f'verdict {verdict} but mark in the {kind} table={own_marks}', ccase)
    else:
        # summary text or nothing
        text_ko = len(loose) > 0
        if rname in ('table',):
            if text_ko != (not verdict):
                rep.violate(f'C12|mark-vs-verdict|{kind}|{rname}|{verb.name}', f'verdict {verdict} but KO mark present={text_ko}', ccase)
        else:
            first = result.first_test_res
            exp_any = (not verdict) or (not bool(first))
            if text_ko and not exp_any:
                rep.violate(f'C12|mark-vs-verdict|{kind}|{rname}|{verb.name}', 'KO mark although the correction and the first test both pass', ccase)
            if not text_ko and not verdict:
                rep.violate(f'C12|mark-vs-verdict|{kind}|{rname}|{verb.name}', f'verdict {verdict} but no mark at all', ccase)
    if first_tables:
        marks = any(c[1] for t in first_tables for r in t for c in r)
        if marks != (not bool(result.first_test_res)):
            rep.violate(f'C12|mark-vs-verdict|{kind}-first-test|{rname}|{verb.name}',
                        f'first test verdict {bool(result.first_test_res)} but mark in its table={marks}', ccase)
        heads, rows = expected_table('student', result.first_test_res, False)
        for tab in first_tables:
            prob = compare_table(tab, heads, rows, subset_ok=True)
            if prob:
                rep.violate(f'C12|{"highlight-rows" if ("highlighted" in prob or "not shown" in prob) else "cells"}|{ctag}', 'first test table: ' + prob, ccase)


# ------------------------------------------------------------------ slicing / joining
def judge_slices(rep, kind, result, case, shape_tag):
    from valjean.javert.verbosity import Verbosity
    from valjean.javert import representation as rpr
    from valjean.javert.templates import TableTemplate
    tpls = [t for t in rpr.Representation(rpr.TableRepresenter(), verbosity=Verbosity.FULL_DETAILS)(result) if isinstance(t, TableTemplate)]
    if tpls and isinstance(tpls[0].columns[0], np.ndarray) and tpls[0].columns[0].ndim > 1:
        judge_slices_nd(rep, kind, tpls[0], case, shape_tag)
        return
    if not tpls or not isinstance(tpls[0].columns[0], np.ndarray) or tpls[0].columns[0].ndim != 1:
        return
    tab = tpls[0]
    _, tables, _ = parse_rst(render([tab]))
    base = tables[0]
    nrow = len(base) - 1
    for low, high in itertools.product(range(nrow + 1), repeat=2):
        if high <= low:
            continue
        ccase = dict(case, slice=[low, high])
        try:
            sub = tab[low:high]
            msgs, stabs, _ = parse_rst(render([sub]))
        except Exception as exc:  # pylint: disable=broad-except
            rep.violate(f'C12|slice-raises|{type(exc).__name__}|{kind}', f'table[{low}:{high}] raised {exc!r}', ccase)
            continue
        rep.case(nontrivial=(repr(case), 'slice', low, high), outcome=('slice', kind))
        exp = [base[0]] + base[1 + low:1 + high]
        if msgs or not stabs or stabs[0] != exp:
            rep.violate(f'C12|slice|{kind}|{shape_tag}', f'table[{low}:{high}] renders {stabs[0][1:] if stabs else None}, rows {low}:{high} of the '
                        f'full table are {exp[1:]}', ccase, size=high - low)
    # join: the table with itself sliced in two halves must give the original
    if nrow >= 2:
        for cut in range(1, nrow):
            try:
                left, right = tab[0:cut], tab[cut:nrow]
                left.join(right)
                _, jtabs, _ = parse_rst(render([left]))
            except Exception as exc:  # pylint: disable=broad-except
                rep.violate(f'C12|join-raises|{type(exc).__name__}|{kind}', f'join of table[:{cut}] and table[{cut}:] raised {exc!r}', dict(case, cut=cut))
                continue
            rep.case(nontrivial=(repr(case), 'join', cut), outcome=('join', kind))
            if not jtabs or jtabs[0] != base:
                rep.violate(f'C12|join|{kind}|{shape_tag}', f'table[:{cut}] joined with table[{cut}:] differs from the original table', dict(case, cut=cut))
        try:
            twice = tab.copy()
            twice.join(tab.copy())
            _, jtabs, _ = parse_rst(render([twice]))
            if not jtabs or jtabs[0] != base + base[1:]:
                rep.violate(f'C12|join|{kind}|{shape_tag}', 'table joined with itself is not the concatenation of its rows', dict(case, cut='self'))
        except Exception as exc:  # pylint: disable=broad-except
            rep.violate(f'C12|join-raises|{type(exc).__name__}|{kind}', f'join of a table with its copy raised {exc!r}', dict(case, cut='self'))


def judge_slices_nd(rep, kind, tab, case, shape_tag):
    """Tables whose columns are N-d arrays (one row per cell of a multi-dimensional dataset).  The order of the rows is not
    part of the property (it follows the memory layout), so tables are compared as multisets of rows (cells + marks)."""
    def rows_of(tpl):
        msgs, tabs, _ = parse_rst(render([tpl]))
        if msgs or not tabs:
            return None
        return sorted(map(tuple, tabs[0][1:]))

    base = rows_of(tab)
    if base is None:
        return
    shape = tab.columns[0].shape
    ncol = len(tab.columns)
    # reference per cell: (cells, marks) rendered from a one-cell table cut out with plain indexing of columns AND highlights
    from valjean.javert.templates import TableTemplate

    def cell_rows(index_iter):
        out = []
        for idx in index_iter:
            one = TableTemplate(*[np.atleast_1d(col[idx]) for col in tab.columns], headers=list(tab.headers), units=list(tab.units),
                                highlights=[np.atleast_1d(np.asarray(hil)[idx]) for hil in tab.highlights])
            got = rows_of(one)
            out.extend(got or [('unrenderable',) * ncol])
        return sorted(out)

    every = list(itertools.product(*[range(n) for n in shape]))
    if cell_rows(every) != base:
        return      # the table itself is judged by the per-bin clauses; without a trusted base nothing is compared here
    ops = []        # copy() alone is not in the statement; a wrong copy shows through copy.join(copy) below
    for low, high in itertools.product(range(shape[0] + 1), repeat=2):
        if low < high:
            ops.append((f'[{low}:{high}]', lambda low=low, high=high: tab[low:high], [i for i in every if low <= i[0] < high]))
    if len(shape) > 1:
        for low, high in itertools.product(range(shape[1] + 1), repeat=2):
            if low < high and (low, high) != (0, shape[1]):
                ops.append((f'[:, {low}:{high}]', lambda low=low, high=high: tab[:, low:high], [i for i in every if low <= i[1] < high]))

    def joined(parts):
        left = parts[0]
        left.join(*parts[1:])
        return left
    ops.append(('copy.join(copy)', lambda: joined([tab.copy(), tab.copy()]), every + every))
    ops.append(('copy.join(original)', lambda: joined([tab.copy(), tab]), every + every))
    for cut in range(1, shape[0]):
        ops.append((f'[:{cut}].join([{cut}:])', lambda cut=cut: joined([tab[0:cut], tab[cut:shape[0]]]), every))
    for name, func, cells in ops:
        ccase = dict(case, operation=name)
        clause = 'join' if 'join' in name else ('copy' if name == 'copy' else 'slice')
        try:
            got = rows_of(func())
        except Exception as exc:  # pylint: disable=broad-except
            rep.violate(f'C12|{clause}-raises|{type(exc).__name__}|{kind}|nd', f'table{name} raised {exc!r}', ccase)
            continue
        rep.case(nontrivial=(repr(case), 'nd', name), outcome=(clause + '-nd', kind))
        exp = cell_rows(cells)
        if got != exp:
            diff = [r for r in (got or []) if r not in exp][:2]
            rep.violate(f'C12|{clause}|{kind}|{shape_tag}|nd', f'table{name} of a table with {len(shape)}-d columns: rows (cells, marked) {diff} are not '
                        f'rows of the original table (expected the rows of cells {cells[:4]}...)', ccase, size=len(cells))
    if rows_of(tab) != base:
        rep.violate(f'C12|source-modified|{kind}|{shape_tag}|nd', 'copying / slicing / joining changed the original table', case)


# ------------------------------------------------------------------ jobs
def dataset_cases(tier):
    out = []
    shapes = [((), 'C'), ((1,), 'C'), ((3,), 'C'), ((2, 2), 'C'), ((2, 2), 'F'), ((1, 3, 1), 'C')]
    if tier == 'thorough':
        shapes += [((4,), 'C'), ((2, 3), 'F'), ((2, 1, 2), 'C')]
    for shape, lay in shapes:
        ncell = int(np.prod(shape)) if shape else 1
        for pat in itertools.product((False, True), repeat=ncell):
            out.append((shape, lay, (pat,)))
        if ncell <= 3:
            for pat in itertools.product((False, True), repeat=2 * ncell):
                out.append((shape, lay, (pat[:ncell], pat[ncell:])))
        elif tier == 'thorough' or lay == 'F':
            for pat in itertools.product((False, True), repeat=ncell):
                out.append((shape, lay, (pat, tuple(reversed(pat)))))
    return out


def to_layout(dsets, lay):
    if lay == 'C':
        return dsets
    from valjean.eponine.dataset import Dataset
    return [Dataset(np.asfortranarray(d.value), np.asfortranarray(d.error), bins=d.bins, name=d.name, what=d.what) for d in dsets]


def build_dataset_result(kind, shape, lay, patterns, alpha=0.05):
    from valjean.gavroche.test import TestEqual, TestApproxEqual
    from valjean.gavroche.stat_tests.student import TestStudent
    from valjean.gavroche.stat_tests.bonferroni import TestBonferroni, TestHolmBonferroni
    dss = to_layout(kit.make_datasets(shape, patterns), lay)
    if kind == 'equal':
        return TestEqual(*dss, name='t', description='d').evaluate()
    if kind == 'approx':
        return TestApproxEqual(*dss, name='t', description='d').evaluate()
    stu = TestStudent(*dss, name='t', description='d', alpha=alpha)
    if kind == 'student':
        return stu.evaluate()
    if kind == 'bonferroni':
        return TestBonferroni(name='b', description='d', test=stu, alpha=alpha).evaluate()
    return TestHolmBonferroni(name='h', description='d', test=stu, alpha=alpha).evaluate()


def job_dataset(args):
    kind, chunk = args
    rep = Report()
    for shape, lay, patterns in chunk:
        case = {'kind': kind, 'shape': shape, 'layout': lay, 'failing pattern per dataset': patterns}
        tag = f'ndim={len(shape)}{"F" if lay == "F" else ""}|nds={len(patterns)}'
        try:
            result = build_dataset_result(kind, shape, lay, patterns)
        except Exception as exc:  # pylint: disable=broad-except
            rep.violate(f'HARNESS|build|{type(exc).__name__}', repr(exc), case)
            continue
        judge_dataset(rep, kind, result, case, tag)
        if kind in ('equal', 'approx', 'student') and len(shape) >= 1:
            judge_slices(rep, kind, result, case, tag)
    rep.sample({'kind': kind, 'case': chunk[len(chunk) // 2]})
    return rep


def judge_simple(rep, kind, result, case, expect_rows=None):
    """metadata / statistics / failed: mark iff false (+ optional per-row expectation on the first table)."""
    from valjean.javert.verbosity import Verbosity
    verdict = bool(result)
    for verb in Verbosity:
        for rname in REPRS:
            ccase = dict(case, representer=rname, verbosity=verb.name)
            try:
                _, text = templates_for(rname, result, verb)
                msgs, tables, loose = parse_rst(text)
            except Exception as exc:  # pylint: disable=broad-except
                rep.violate(f'C12|raises|{type(exc).__name__}|{kind}', f'{rname} at {verb.name} raised {exc!r}', ccase)
                continue
            marks = bool(loose) or any(c[1] for t in tables for r in t for c in r)
            rep.case(nontrivial=(repr(case), rname, verb.name) if not verdict else None, outcome=(kind, verb.name, 'marks' if marks else 'plain'))
            if msgs:
                rep.violate(f'C12|invalid-rst|{kind}|{rname}|{verb.name}', f'docutils: {msgs[0][:200]}', ccase)
            if verb.name == 'SILENT':
                continue
            if marks != (not verdict):
                rep.violate(f'C12|mark-vs-verdict|{kind}|{rname}|{verb.name}', f'verdict {verdict} but failure mark present={marks}', ccase)
            if expect_rows is not None and tables:
                prob = expect_rows(tables[0], verb)
                if prob:
                    rep.violate(f'C12|{"highlight-rows" if "highlighted" in prob else "cells"}|{kind}|{rname}|{verb.name}', prob, ccase)


def stats_rows(counts_by_status, ok_name):
    """Expectation for the status/counts table of statistics results."""
    total = sum(counts_by_status.values())

    def check(table, _verb):
        body = table[1:]
        names = [r[0][0] for r in body]
        exp = [s for s, c in counts_by_status.items() if c] + ['total']
        if sorted(names) != sorted(exp):
            return f'status rows {names}, expected {exp}'
        for row in body:
            name = row[0][0]
            cnt = total if name == 'total' else counts_by_status[name]
            if not row[1][0].startswith(f'{cnt}/{total}'):
                return f'row {name}: count reads {row[1][0]!r}, expected {cnt}/{total}'
            exp_mark = name not in (ok_name, 'total')
            if any(c[1] for c in row) != exp_mark:
                return f'row {name}: highlighted={any(c[1] for c in row)}, expected {exp_mark}'
        return ''
    return check


def job_simple(args):
    family, tier = args
    rep = Report()
    if family == 'metadata':
        for nkeys in (1, 2, 3):
            for agree in itertools.product((True, False), repeat=nkeys):
                _, res = kit.build_metadata(agree)
                judge_simple(rep, 'metadata', res, {'kind': 'metadata', 'keys agree': agree})
    elif family == 'stats_tasks':
        sts = ('DONE', 'FAILED', 'SKIPPED', 'WAITING', 'PENDING')
        for num in (1, 2, 3):
            for combo in itertools.combinations_with_replacement(sts, num):
                _, res = kit.build_stats_tasks(combo)
                counts = {s: combo.count(s) for s in sts}
                judge_simple(rep, 'stats_tasks', res, {'kind': 'stats_tasks', 'statuses': combo}, stats_rows(counts, 'DONE'))
    elif family == 'stats_tests':
        items = (True, False, None)
        for num in (1, 2, 3):
            for combo in itertools.combinations_with_replacement(items, num):
                spec = tuple(None if v is None else (v,) for v in combo)
                _, res = kit.build_stats_tests(spec)
                counts = {'SUCCESS': combo.count(True), 'FAILURE': combo.count(False), 'MISSING': combo.count(None), 'NOT_A_TEST': 0}
                judge_simple(rep, 'stats_tests', res, {'kind': 'stats_tests', 'verdicts (None = task without result)': combo},
                             stats_rows(counts, 'SUCCESS'))
        _, res = kit.build_stats_tests(((True, False), (True,)))
        judge_simple(rep, 'stats_tests', res, {'kind': 'stats_tests', 'verdicts': ((True, False), (True,))},
                     stats_rows({'SUCCESS': 2, 'FAILURE': 1, 'MISSING': 0, 'NOT_A_TEST': 0}, 'SUCCESS'))
    elif family == 'stats_labels':
        opts = [(v, d) for v in (True, False) for d in ('d1', 'd2', None)]
        for num in (1, 2, 3):
            for combo in itertools.combinations_with_replacement(opts, num):
                if all(d is None for _, d in combo):
                    continue     # no result carries the label: nothing to tabulate
                try:
                    _, res = kit.build_stats_labels(combo)
                except Exception as exc:  # pylint: disable=broad-except
                    rep.counters[f'stats_labels_build_raises:{type(exc).__name__}'] += 1
                    continue

                def rows(table, verb, combo=combo):
                    body = table[1:]
                    for row in body:
                        day = row[0][0]
                        nko = sum(1 for v, d in combo if d == day and not v)
                        if any(c[1] for c in row) != (nko > 0):
                            return f'label {day}: highlighted={any(c[1] for c in row)}, failures={nko}'
                    days = sorted({d for _, d in combo if d is not None and (verb.name != 'SUMMARY' or any(not v for v, dd in combo if dd == d))})
                    if sorted(r[0][0] for r in body) != days:
                        return f'label rows {[r[0][0] for r in body]}, expected {days}'
                    return ''
                judge_simple(rep, 'stats_labels', res, {'kind': 'stats_labels', 'results (verdict, day label)': combo}, rows)
    elif family == 'failed':
        _, res = kit.build('failed')
        judge_simple(rep, 'failed', res, {'kind': 'failed'})
    rep.sample({'family': family})
    return rep


def job_session(args):
    """One Rst formatter object used for several results in a row (the reports of two runs, or two results of one report):
    what it produces for a result is what a fresh formatter produces for that result - in particular it carries the failure
    marks of THAT result - whatever it formatted before."""
    (family,) = args
    from valjean.javert import representation as rpr
    from valjean.javert.rst import Rst
    from valjean.javert.verbosity import Verbosity
    rep = Report()
    if family == 'stats_tasks':
        specs = [('DONE',), ('FAILED',), ('DONE', 'DONE'), ('DONE', 'FAILED'), ('FAILED', 'DONE')]
        build = kit.build_stats_tasks
    elif family == 'stats_tests':
        specs = [((True,),), ((False,),), ((True,), (True,)), ((True,), (False,)), ((True,), None)]
        build = kit.build_stats_tests
    elif family == 'stats_labels':
        specs = [((True, 'd1'),), ((False, 'd1'),), ((True, 'd1'), (True, 'd2')), ((True, 'd1'), (False, 'd2'))]
        build = kit.build_stats_labels
    elif family == 'metadata':
        specs = [(True,), (False,), (True, True), (True, False)]
        build = kit.build_metadata
    else:
        specs = [((False, False, False),), ((False, True, False),), ((True, True, True),)]

        def build(spec):
            return kit.build(family, shape=(3,), patterns=spec)
    for verb in Verbosity:
        def fresh(result, verb=verb):
            return '\n'.join(Rst(rpr.Representation(rpr.FullRepresenter(), verbosity=verb)).format_result(result))
        for one, two in itertools.product(specs, repeat=2):
            results = [build(one)[1], build(two)[1]]
            session = Rst(rpr.Representation(rpr.FullRepresenter(), verbosity=verb))
            case = {'kind': family, 'formatted in a row by one Rst object': [repr(one), repr(two)], 'verbosity': verb.name}
            try:
                texts = ['\n'.join(session.format_result(res)) for res in results]
            except Exception as exc:  # pylint: disable=broad-except
                rep.violate(f'C12|session|raises|{type(exc).__name__}|{family}', f'formatting {one!r} then {two!r} raised {exc!r}', case)
                continue
            differs = bool(results[0]) != bool(results[1])
            rep.case(nontrivial=(family, repr(one), repr(two), verb.name) if differs else None, outcome=('session', family, differs))
            for which, (res, text) in enumerate(zip(results, texts)):
                want = fresh(res)
                if text != want:
                    _, tables, loose = parse_rst(text)
                    marks = bool(loose) or any(c[1] for t in tables for r in t for c in r)
                    clause = 'mark-vs-verdict' if verb.name != 'SILENT' and marks != (not bool(res)) else 'history-dependent'
                    rep.violate(f'C12|session|{clause}|{family}|{verb.name}', f'result #{which + 1} of the sequence {one!r}, {two!r} (verdict '
                                f'{bool(res)}) is not rendered as by a fresh formatter (failure mark present={marks})', case)
    # templates handed out by a representer belong to the caller: joining them in place (TextTemplate.join / TableTemplate.join are
    # documented as in-place) must not change what the representer produces for the next result
    baseline = {}
    for verb in Verbosity:
        for spec in specs:
            baseline[(repr(spec), verb)] = templates_for('full', build(spec)[1], verb)[1]
    for verb in Verbosity:
        for one, two in itertools.product(specs, repeat=2):
            tp1 = rpr.Representation(rpr.FullRepresenter(), verbosity=verb)(build(one)[1]) or []
            tp2 = rpr.Representation(rpr.FullRepresenter(), verbosity=verb)(build(two)[1]) or []
            joined = 0
            for left, right in zip(tp1, tp2):
                if type(left) is type(right) and hasattr(left, 'join'):
                    try:
                        left.join(right)
                        joined += 1
                    except Exception:  # pylint: disable=broad-except
                        pass            # templates that cannot be joined (different headers / shapes): nothing happened
            rep.evaluations += 1
            if not joined:
                continue
            for spec in (one, two):
                text = templates_for('full', build(spec)[1], verb)[1]
                if text != baseline[(repr(spec), verb)]:
                    rep.violate(f'C12|session|templates-shared|{family}|{verb.name}', f'after joining in place the templates of {one!r} with those of '
                                f'{two!r}, a new rendering of {spec!r} differs from the one made before',
                                {'kind': family, 'joined in place': [repr(one), repr(two)], 'verbosity': verb.name})
                    break
    rep.sample({'kind': family, 'formatted in a row by one Rst object': [repr(specs[0]), repr(specs[1])]})
    return rep


def _call(job):
    return job[0](job[1])


def run(tier, seed):
    cases = dataset_cases(tier)
    jobs = []
    for kind in kit.DATASET_KINDS:
        for i in range(0, len(cases), 24):
            jobs.append((job_dataset, (kind, cases[i:i + 24])))
    for family in ('metadata', 'stats_tasks', 'stats_tests', 'stats_labels', 'failed'):
        jobs.append((job_simple, (family, tier)))
    for family in ('stats_tasks', 'stats_tests', 'stats_labels', 'metadata', 'equal', 'student', 'holm'):
        jobs.append((job_session, (family,)))
    return pool.pmap(_call, jobs, seed)


def replay(case):
    rep = Report()
    kind = case.get('kind')
    if kind in kit.DATASET_KINDS:
        shape = tuple(case['shape'])
        patterns = tuple(tuple(p) for p in case['failing pattern per dataset'])
        result = build_dataset_result(kind, shape, case.get('layout', 'C'), patterns)
        base = {k: v for k, v in case.items() if k not in ('representer', 'verbosity', 'slice', 'cut')}
        judge_dataset(rep, kind, result, base, 'replay')
        if len(shape) == 1 and kind in ('equal', 'approx', 'student'):
            judge_slices(rep, kind, result, base, 'replay')
        return {'verdict': bool(result), 'problems': {k: v[0] for k, v in rep.violations.items()}, 'violates': bool(rep.violations)}
    return {'note': 're-run ./vf check C12', 'case': case, 'violates': False}
