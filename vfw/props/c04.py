"""C04 - re-running a job re-executes exactly the tasks whose results are out of date."""
import itertools
import time

from ..core.report import Report
from ..core import pool
from ..sched import explore, rerun, configs as C
from . import c04_persist

LEVEL = 'model_checking'
ENGINE = 'E-sched'
DESIGN_REF = '4/C04'
TECHNIQUE = ('explicit-state BFS over histories of runs (state = persisted DONE entries with clock ranks; event = which entries are lost '
             'and which tasks fail in the next run) where every transition is itself an exhaustive preemption-bounded exploration of '
             'the thread interleavings of the real scheduler started from that state')
RULE = ('graphs: 2-chains (hard, soft), 3-chains (hh, hs, sh), fork and join with mixed edges, 3-chains whose dependencies are submitted after their dependents, and a 4-task graph with a skippable soft dependency (single changes only); run 1 from an empty environment, then up '
        'to 2 (thorough 3) further runs (single changes only before the last run); between runs every event with <= 2 lost persisted entries and <= 2 failing tasks (a failed task '
        'recovers when it is not chosen again); environments carried the documented way (a fresh Env merging the DONE entries); clock '
        'either strictly increasing or coarse (3 reads per value, so that equal clocks occur); every run explored over all schedules with '
        '(workers, preemption bound) = (1,2),(2,1) on 2-task graphs and (1,1),(2,0) on 3-task graphs (thorough: (1,3),(2,2) and (1,2),(2,0)); the successor states of a history are '
        'the union over schedules. One transition (a DONE task whose soft dependency is skipped while its hard dependency is re-executed) is additionally explored at 2 workers / 2 preemptions. Oracle at the end of every run: no task is DONE unless each DONE dependency has end <= start(task) and '
        'no hard dependency is FAILED or SKIPPED; a task that entered DONE with its whole dependency cone DONE and not re-executed is not '
        'executed and keeps its entry bit for bit; no task runs twice in a run; non-trivial = runs starting from a non-empty state. '
        'Persisted path: BFS (state = per-task status and clock ranks on disk) over histories of the real RunCommand.execute (job file -> build_graphs -> '
        'read_env -> Scheduler on real threads, 1 and 2 workers -> write_env) on a 4-task hard/soft job: first run + 3 (thorough 4) steps from {run with a / b / c '
        'failing or none, run of a part of the job (tasks added / removed), loss of one environment file}; same clauses judged on the returned environment, '
        'the journal of executions and the entries readable on disk before the run')
ASSUMPTIONS = ['same trusted base as C01 (controlled scheduler, bounded preemptions)',
               'clock values matter only through comparisons: states are canonicalised by replacing clocks with their ranks',
               'small-scope: <= 3 tasks, <= 3-4 runs, <= 2 changes between runs',
               'persisted path: real threads and the real clock (one OS-chosen schedule per run; the schedule dimension is explored by the controlled runs above)']
LEVEL_TEXT = ('The state graph of persisted environments under "run again with some entries lost / some tasks failing" is explored breadth '
              'first to depth 3 (4) for every small graph; each edge is computed by exhaustively exploring the interleavings of the real '
              'scheduler (preemption bound 0-1) from that state, and the re-run invariant (nothing DONE is older than a DONE dependency or '
              'sits on a failed hard dependency; untouched up-to-date tasks are neither executed nor modified) is checked at the end of '
              'every execution. The persisted path is explored too: BFS over histories of the real `valjean run` command (job file, read_env, '
              'scheduler on real threads, write_env) on one output directory, state = what is on disk, with failing tasks, lost environment '
              'files and tasks added to / removed from the job between runs; same clauses.')
LEVEL_NOTE = 'bounded preemptions per run; logical clock (strict and coarse).'
from .c01 import ASSUMPTIONS as _A01  # noqa: E402,F401  pylint: disable=wrong-import-position,unused-import

GRAPHS = {
    'chain2h': (2, C.CHAIN2), 'chain2s': (2, C.CHAIN2S),
    'chain3hh': (3, C.CHAIN3), 'chain3hs': (3, C.CHAIN3HS), 'chain3sh': (3, C.CHAIN3SH),
    'fork3hs': (3, C.FORK3HS), 'join3hs': (3, C.JOIN3HS),
    # dependencies submitted AFTER their dependents (the order of the job's task list is arbitrary)
    'back3sh': (3, [(0, 1, 's'), (1, 2, 'h')]), 'back3hs': (3, [(0, 1, 'h'), (1, 2, 's')]),
    # t0 <-h- t1 <-s- t3 -h-> t2: a DONE task (t3) whose soft dependency (t1) is skipped, hence has no clocks, while its
    # hard dependency (t2) is re-executed
    'skipclock4': (4, [(1, 0, 'h'), (3, 1, 's'), (3, 2, 'h')]),
}


def events(ntask):
    """(lost entries, failing tasks) with at most 2 of each (at most 1 of each for the 4-task graph)."""
    subs = [()] + [(i,) for i in range(ntask)] + (list(itertools.combinations(range(ntask), 2)) if ntask < 4 else [])
    return [(lost, fail) for lost in subs for fail in subs]


def job(args):
    gname, carried, clock0, version, event, plans, coarse = args
    ntask, edges = GRAPHS[gname]
    lost, failing = event
    rep = Report()
    carried = {k: v for k, v in carried.items() if int(k[1:]) not in lost}
    outcomes = ['fail' if i in failing else 'ok' for i in range(ntask)]
    succ = {}
    for workers, bound in plans:
        cfg = {'n': ntask, 'edges': [list(e) for e in edges], 'outcomes': outcomes, 'workers': workers, 'version': version,
               'carried': carried, 'clock0': clock0, 'coarse': coarse}

        def on_execution(exe, cfg=cfg, bound=bound):
            rep.case(nontrivial=True if carried else None)
            rep.traces += 1
            rep.transitions += len(exe.rec)
            probs = rerun.oracle(exe, cfg)
            for key, what in probs:
                case = {'graph': gname, 'config': {k: v for k, v in cfg.items() if k != 'carried'},
                        'carried': {k: {kk: repr(vv) for kk, vv in v.items()} for k, v in carried.items()},
                        'bound': bound, 'schedule': exe.choices}
                rep.violate(key + ('|coarse-clock' if coarse > 1 else ''), f'{gname} run {version} (lost {lost}, failing {failing}, {cfg["workers"]} worker(s)): {what}',
                            case, size=exe.preemptions * 1000 + len(exe.rec))
            if exe.outcome[0] == 'quiescent' and not probs:      # the invariant is inductive: no search beyond a violating state
                key, car, nclock = rerun.canon_state(rerun.final_entries(exe.harness), ntask)
                succ.setdefault(key, (car, nclock))
                rep.outcomes[key[1]] += 1

        exp = explore.Explorer(lambda rtm, cfg=cfg: rerun.RerunHarness(cfg, rtm), bound, on_execution)
        exp.run()
        rep.evaluations += 0
    rep.extra['_succ'] = [(key, car, nclock) for key, (car, nclock) in succ.items()]
    return rep


def _focus_collector(rep, gname, cfg, bound, label):
    def on_execution(exe):
        rep.case(nontrivial=True)
        rep.traces += 1
        rep.transitions += len(exe.rec)
        for key, what in rerun.oracle(exe, cfg):
            case = {'graph': gname, 'config': {k: v for k, v in cfg.items() if k != 'carried'},
                    'carried': {k: {kk: repr(vv) for kk, vv in v.items()} for k, v in cfg['carried'].items()},
                    'bound': bound, 'schedule': exe.choices}
            rep.violate(key, f'{gname} {label}, {cfg["workers"]} worker(s), bound {bound}: {what}', case,
                        size=exe.preemptions * 1000 + len(exe.rec))
    return on_execution


def job_subtree(args):
    gname, cfg, bound, prefix, label = args
    rep = Report()
    exp = explore.Explorer(lambda rtm: rerun.RerunHarness(cfg, rtm), bound, _focus_collector(rep, gname, cfg, bound, label))
    exp.stack.clear()
    exp.stack.append(prefix)
    exp.run()
    return rep


# (graph, failing tasks of run 1, (lost, failing) of run 2, workers, preemption bound): deeper exploration of one transition
FOCUS = [
    # a DONE task whose soft dependency is SKIPPED (no clocks) while its hard dependency is re-executed: needs 2 workers, 2 preemptions
    ('skipclock4', (0,), ((2,), (0,)), 2, 2),
]


def focus(total, tier, seed):
    for gname, fail1, (lost, fail2), workers, bound in FOCUS:
        ntask, edges = GRAPHS[gname]
        cfg1 = {'n': ntask, 'edges': [list(e) for e in edges], 'outcomes': ['fail' if i in fail1 else 'ok' for i in range(ntask)],
                'workers': 1, 'version': 1, 'carried': {}, 'clock0': 0.0, 'coarse': 1}
        exe = explore.run_once(lambda rtm: rerun.RerunHarness(cfg1, rtm), [])
        _, carried, clock0 = rerun.canon_state(rerun.final_entries(exe.harness), ntask)
        carried = {k: v for k, v in carried.items() if int(k[1:]) not in lost}
        cfg2 = {'n': ntask, 'edges': [list(e) for e in edges], 'outcomes': ['fail' if i in fail2 else 'ok' for i in range(ntask)],
                'workers': workers, 'version': 2, 'carried': carried, 'clock0': clock0, 'coarse': 1}
        label = f'run 2 (lost {lost}, failing {fail2}) after run 1 (failing {fail1})'
        rep = Report()
        exp = explore.Explorer(lambda rtm: rerun.RerunHarness(cfg2, rtm), bound, _focus_collector(rep, gname, cfg2, bound, label))
        subs = exp.split(96)
        total.merge(rep)
        for part in _pmap_keep(job_subtree, [(gname, cfg2, bound, sub, label) for sub in subs], seed):
            total.merge(part)
        total.configs.append({'focused transition': label, 'graph': gname, 'workers': workers, 'preemption_bound': bound, 'subtrees': len(subs)})


def run(tier, seed):
    plans = {2: [(1, 2), (2, 1)], 3: [(1, 1), (2, 0)], 4: [(1, 1)]} if tier == 'quick' else {2: [(1, 3), (2, 2)], 3: [(1, 2), (2, 0)], 4: [(1, 1), (2, 0)]}
    nruns = 3 if tier == 'quick' else 4
    graphs = ['chain2h', 'chain2s', 'chain3hh', 'chain3hs', 'join3hs', 'back3sh', 'skipclock4'] if tier == 'quick' else list(GRAPHS)
    total = Report()
    t_start, budget = time.time(), (900 if tier == 'quick' else 5400)
    for coarse in (1, 3):
        frontier = {g: {('empty',): ({}, 0.0)} for g in graphs}
        seen = {g: set(frontier[g]) for g in graphs}
        for version in range(1, nruns + 1):
            jobs = []
            for gname in graphs:
                ntask = GRAPHS[gname][0]
                for key, (carried, clock0) in frontier[gname].items():
                    evs = events(ntask)
                    if version == 1:
                        evs = [e for e in evs if not e[0]]          # nothing to lose before the first run
                    elif version == nruns:      # last level: single changes only (quick and thorough)
                        evs = [e for e in evs if len(e[0]) + len(e[1]) <= 1]
                    for event in evs:
                        jobs.append((gname, carried, clock0, version, event, plans[ntask], coarse))
            parts = []
            for i in range(0, len(jobs), 160):          # batches, so that the wall-clock budget is honoured inside a level
                if time.time() - t_start > budget:
                    total.cap(f'time budget {budget}s: run {version} (coarse={coarse}) explored for {i} of {len(jobs)} (state, event) pairs only')
                    break
                parts.extend(_pmap_keep(job, jobs[i:i + 160], seed))
            frontier = {g: {} for g in graphs}
            for (gname, *_), rep in zip(jobs, parts):
                for key, car, nclock in rep.extra.pop('_succ', []):
                    if key not in seen[gname]:
                        seen[gname].add(key)
                        frontier[gname][key] = (car, nclock)
                        total.states += 1
                total.merge(rep)
            total.extra[f'states_after_run_{version}_coarse{coarse}'] = sum(len(v) for v in frontier.values())
    total.states += len(graphs)
    focus(total, tier, seed)
    # the persisted path: histories of the real `valjean run` command on one output directory (files only carry the state)
    for part in _pmap_keep(c04_persist.job_persist, c04_persist.jobs(tier), seed):
        total.merge(part)
    total.extra['runs_per_history'] = nruns
    total.extra['schedule_plans(workers, preemption bound) per number of tasks'] = {str(k): v for k, v in plans.items()}
    total.sample({'graph': 'chain3hh', 'history': [{'run': 1, 'lost': [], 'failing': []}, {'run': 2, 'lost': [0], 'failing': []}]})
    return total


def _pmap_keep(func, jobs, seed):
    """Ordered parallel map (reports are matched with their jobs)."""
    import multiprocessing
    import os
    if not jobs:
        return []
    ctx = multiprocessing.get_context('fork')
    with ctx.Pool(min(16, os.cpu_count() or 1)) as pol:
        return pol.map(_safe, [(func, j) for j in jobs], 1)


def _safe(args):
    return pool._call(args)  # pylint: disable=protected-access


def replay(case):
    if str(case.get('label', '')).startswith('persisted:'):
        return c04_persist.replay(case)
    cfg = dict(case['config'])
    import ast
    from valjean.cosette.task import TaskStatus
    carried = {}
    for name, ent in case.get('carried', {}).items():
        new = {}
        for key, val in ent.items():
            if key == 'status':
                new[key] = TaskStatus.DONE
            else:
                new[key] = ast.literal_eval(val)
        carried[name] = new
    cfg['carried'] = carried
    try:
        exe = explore.run_once(lambda rtm: rerun.RerunHarness(cfg, rtm), [tuple(c) for c in case['schedule']])
    except explore.ReplayDivergence as exc:
        return {'violates': False, 'diverged': str(exc)}
    probs = rerun.oracle(exe, cfg)
    return {'final entries': {k: {kk: repr(vv) for kk, vv in v.items()} for k, v in rerun.final_entries(exe.harness).items()},
            'executions': [t.count for t in exe.harness.tasks], 'problems': probs, 'violates': bool(probs)}
