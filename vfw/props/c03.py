"""C03 - scheduling always terminates and leaves no worker thread behind."""
import itertools

from ..sched import check, configs as C
from .c01 import LEVEL, TECHNIQUE, ASSUMPTIONS  # noqa: F401  pylint: disable=unused-import

RULE = ('[outcomes also: update replacing the own or another entry by a non-dictionary, update whose merge fails half-way, WAITING / PENDING returned as status; the master giving up while tasks are queued (stale FAILED / SKIPPED entry on the last task)] ' +
        'every schedule with at most `preemption_bound` preemptions of Scheduler.schedule() for each listed configuration: acyclic '
        'graphs with every outcome, cyclic graphs (self loop, 2-cycle, 3-cycle, cycle closed only by a soft edge, cycle hanging off '
        'a DAG), initial environments holding DONE/FAILED/SKIPPED entries, and a second schedule() call on the same Scheduler object; every execution must end with the master returned or '
        'raised, no model thread alive, no blocked thread (deadlock = no enabled thread while one is unfinished; livelock = 5000 '
        'visible operations), and the work queue empty; non-trivial = executions with at least one preemption')

SELF = [(0, 0, 'h')]
CYC2 = [(1, 0, 'h'), (0, 1, 'h')]
CYC2SOFT = [(1, 0, 'h'), (0, 1, 's')]
CYC2SS = [(1, 0, 's'), (0, 1, 's')]
CYC3 = [(1, 0, 'h'), (2, 1, 'h'), (0, 2, 'h')]
CYC3SOFT = [(1, 0, 'h'), (2, 1, 'h'), (0, 2, 's')]
TAIL = [(1, 0, 'h'), (2, 1, 'h'), (1, 2, 's')]     # t0 <- t1 <-> t2


def plan(tier):
    out = []
    workers = (1, 2) if tier == 'quick' else (1, 2, 3)
    # cyclic graphs
    for n, edges in ((1, SELF), (2, CYC2), (2, CYC2SOFT), (2, CYC2SS), (3, CYC3), (3, CYC3SOFT), (3, TAIL)):
        for wrk in workers:
            out.append((C.cfg(n, edges, ['ok'] * n, wrk, cyclic=True), 2 if wrk < 3 else 1))
    # single task and 2-task chains, every outcome
    for dep_out in C.ALL:
        for wrk in workers:
            out.append((C.cfg(1, [], [dep_out], wrk), 3 if wrk == 1 else 2))
        for edges in (C.CHAIN2, C.CHAIN2S):
            out.append((C.cfg(2, edges, [dep_out, 'ok'], 2), 2))
            out.append((C.cfg(2, edges, ['ok', dep_out], 2), 1))
    # initial environments: any subset of <= 2 tasks of a 2-chain holds an earlier entry
    for edges in (C.CHAIN2, C.CHAIN2S):
        for st0, st1 in itertools.product((None, 'DONE', 'FAILED', 'SKIPPED'), repeat=2):
            if st0 is None and st1 is None:
                continue
            for clocks in (True, False):
                init = [(i, s, clocks) for i, s in ((0, st0), (1, st1)) if s]
                out.append((C.cfg(2, edges, ['ok', 'ok'], 2, init=init), 1))
                out.append((C.cfg(2, edges, ['ok', 'ok'], 1, init=init), 2))
    # the master gives up (an earlier FAILED / SKIPPED entry of a task it has to look at) while tasks it has already queued are
    # waiting or running: independent tasks, the stale entry on the one examined last, fewer workers than ready tasks
    for n in (2, 3):
        for sta in ('FAILED', 'SKIPPED'):
            for wrk in (1, 2):
                out.append((C.cfg(n, [], ['ok'] * n, wrk, init=[(n - 1, sta, False)]), 2 if n == 2 or tier == 'thorough' else 1))
    # a task that reports PENDING as its final status (WAITING is in the common alphabet)
    for wrk in (1, 2):
        out.append((C.cfg(2, C.CHAIN2, ['pending', 'ok'], wrk), 1))
        out.append((C.cfg(2, C.CHAIN2S, ['pending', 'ok'], wrk), 1))
    # a task whose update replaces the entry of ANOTHER task by a non-dictionary, while that task waits, runs or has finished
    for edges in ([], C.CHAIN2S, C.backward_variants(C.CHAIN2S, 2)):
        for wrk in (1, 2):
            out.append((C.cfg(2, edges, ['clobber-next', 'ok'], wrk), 2))
    # 3-task graphs
    for edges in (C.FORK3HS, C.JOIN3HS, C.CHAIN3HS):
        out.append((C.cfg(3, edges, ['ok'] * 3, 2), 2 if tier == 'thorough' else 1))
        for k in range(3):
            for bad in ('raise', 'notpair'):
                outs = ['ok'] * 3
                outs[k] = bad
                out.append((C.cfg(3, edges, outs, 2), 1))
    out.append((C.cfg(2, [], ['ok', 'ok'], 2), 2))
    # the same Scheduler object asked to schedule twice (second call on the environment left by the first)
    for wrk in workers:
        out.append((C.cfg(1, [], ['ok'], wrk, calls=2), 1))
        out.append((C.cfg(2, C.CHAIN2, ['fail', 'ok'], wrk, calls=2), 1))
    out.append((C.cfg(2, [], ['ok', 'ok'], 3), 1))
    if tier == 'thorough':
        out.append((C.cfg(2, C.CHAIN2, ['ok', 'ok'], 2), 3))
        out.append((C.cfg(2, C.CHAIN2, ['ok', 'ok'], 3), 2))
        out.append((C.cfg(1, [], ['ok'], 2), 4))
        for edges in C.forward_dags(3):
            out.append((C.cfg(3, edges, ['ok'] * 3, 2), 1))
            out.append((C.cfg(3, edges, ['ok'] * 3, 3), 0))
        for edges in (C.CHAIN3HS, C.JOIN3HS):
            for sts in itertools.product((None, 'DONE', 'FAILED'), repeat=3):
                init = [(i, s, True) for i, s in enumerate(sts) if s]
                if init:
                    out.append((C.cfg(3, edges, ['ok'] * 3, 2, init=init), 1))
    return out


REAL_SCRIPT = r"""
import sys, json, logging, threading
logging.disable(logging.CRITICAL)
from valjean.cosette.task import Task, TaskStatus
from valjean.cosette.depgraph import DepGraph
from valjean.cosette.scheduler import Scheduler
from valjean.cosette.backends.queue import QueueScheduling
from valjean.cosette.env import Env
cfg = json.loads(sys.argv[1])
class Probe(Task):
    def __init__(self, name, outcome):
        super().__init__(name); self.outcome = outcome
    def do(self, env, config):
        out = self.outcome
        upd = {self.name: {'payload': 1}}
        if out == 'ok': return upd, TaskStatus.DONE
        if out == 'fail': return upd, TaskStatus.FAILED
        if out == 'raise': raise RuntimeError('boom')
        if out == 'none': return None
        if out == 'notpair': return 42
        if out == 'badstatus': return upd, 'foo'
        if out == 'badupdate': return 42, TaskStatus.DONE
        return upd, TaskStatus.DONE, 0
tasks = [Probe('t%d' % i, o) for i, o in enumerate(cfg['outcomes'])]
hard, soft = DepGraph(), DepGraph()
for t in tasks:
    hard.add_node(t); soft.add_node(t)
for i, j, k in cfg['edges']:
    (hard if k == 'h' else soft).add_dependency(tasks[i], on=tasks[j])
env = Env()
for i, st, _ in cfg.get('init', []):
    env['t%d' % i] = {'status': TaskStatus[st]}
try:
    Scheduler(hard_graph=hard, soft_graph=soft, backend=QueueScheduling(cfg['workers'])).schedule(env=env)
    print('returned')
except Exception as exc:
    print('raised', type(exc).__name__)
print('threads', [t.name for t in threading.enumerate() if t is not threading.main_thread()])
"""


def real_thread_runs(rep, tier):
    """Free-running confirmation: the same driver on real threads in a separate interpreter must come back AND the
    interpreter must exit (leaked non-daemon workers only show at exit).  Not the deciding step."""
    import json
    import subprocess
    import sys
    cfgs = [C.cfg(2, C.CHAIN2, ['ok', 'ok'], 3), C.cfg(2, CYC2, ['ok', 'ok'], 2, cyclic=True), C.cfg(2, CYC2SOFT, ['ok', 'ok'], 3, cyclic=True),
            C.cfg(1, SELF, ['ok'], 1, cyclic=True), C.cfg(2, C.CHAIN2, ['notpair', 'ok'], 2), C.cfg(2, C.CHAIN2, ['badupdate', 'ok'], 1),
            C.cfg(2, C.CHAIN2S, ['raise', 'triple'], 2), C.cfg(2, C.CHAIN2, ['ok', 'ok'], 2, init=[(0, 'FAILED', False)]),
            C.cfg(3, C.JOIN3HS, ['fail', 'none', 'ok'], 3), C.cfg(3, TAIL, ['ok'] * 3, 2, cyclic=True)]
    procs = [(cfg, subprocess.Popen([sys.executable, '-W', 'ignore', '-c', REAL_SCRIPT, json.dumps(cfg)], stdout=subprocess.PIPE,
                                    stderr=subprocess.DEVNULL, text=True)) for cfg in cfgs]
    for cfg, proc in procs:
        try:
            out, _ = proc.communicate(timeout=20)
            outcome = (out.split() or ['no-output'])[0]
            alive = 'threads []' not in out
        except subprocess.TimeoutExpired:
            proc.kill()
            proc.communicate()
            outcome, alive = 'timeout', True
        rep.case(nontrivial=('real', json.dumps(cfg, sort_keys=True)), outcome=('real-threads', outcome))
        rep.counters['real_thread_process_runs'] += 1
        if outcome == 'timeout':
            rep.violate('C03|real-threads|process-does-not-exit', f'real threads, {cfg}: schedule() did not come back or the interpreter could not exit within 20 s',
                        {'config': cfg, 'mode': 'real-threads'})
        elif alive:
            rep.violate('C03|real-threads|threads-alive-at-return', f'real threads, {cfg}: threads alive after schedule() came back: {out}',
                        {'config': cfg, 'mode': 'real-threads'})


def run(tier, seed):
    rep = check.run_configs('C03', plan(tier), seed, 420 if tier == 'quick' else 3000)
    real_thread_runs(rep, tier)
    if tier == 'thorough':      # all interleavings (sleep sets) of the smallest configurations
        rep.merge(check.run_por('C03', [C.cfg(1, [], ['ok'], 1), C.cfg(1, [], ['ok'], 2), C.cfg(1, [], ['notpair'], 2), C.cfg(2, C.CHAIN2, ['ok', 'ok'], 1), C.cfg(2, CYC2SOFT, ['ok', 'ok'], 1, cyclic=True)], seed))
    return rep


def replay(case):
    if case.get('mode') == 'real-threads':
        from ..core.report import Report
        rep = Report()
        real_thread_runs(rep, 'quick')
        return {'problems': {k: v[0] for k, v in rep.violations.items()}, 'violates': bool(rep.violations)}
    return check.replay(case)


ENGINE = 'E-sched'
DESIGN_REF = '4/C03'
LEVEL_TEXT = ('For every explored schedule (preemption bound 1-3) of acyclic graphs with every outcome, cyclic graphs (self loop, 2- and 3-cycles, cycles closed only by a soft edge), and initial environments with DONE/FAILED/SKIPPED entries: the run ends with the master returned or raised, every thread it started finished, no thread blocked for ever (deadlock/livelock detection by the controlled scheduler) and the queue empty. A free-running real-thread run in a separate process per configuration class confirms the interpreter exits.')
LEVEL_NOTE = ('Same trusted base as C01; spurious wake-ups are not injected.')
