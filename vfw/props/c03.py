"""C03 - scheduling always terminates and leaves no worker thread behind."""
import itertools

from ..sched import check, configs as C
from .c01 import LEVEL, TECHNIQUE, ASSUMPTIONS  # noqa: F401  pylint: disable=unused-import

RULE = ('every schedule with at most `preemption_bound` preemptions of Scheduler.schedule() for each listed configuration: acyclic '
        'graphs with every outcome, cyclic graphs (self loop, 2-cycle, 3-cycle, cycle closed only by a soft edge, cycle hanging off '
        'a DAG), initial environments holding DONE/FAILED/SKIPPED entries; every execution must end with the master returned or '
        'raised, no model thread alive, no blocked thread (deadlock = no enabled thread while one is unfinished; livelock = 5000 '
        'visible operations), and the work queue empty; non-trivial = executions with at least one preemption')

SELF = [(0, 0, 'h')]
CYC2 = [(1, 0, 'h'), (0, 1, 'h')]
CYC2SOFT = [(1, 0, 'h'), (0, 1, 's')]
CYC2SS = [(1, 0, 's'), (0, 1, 's')]
CYC3 = [(1, 0, 'h'), (2, 1, 'h'), (0, 2, 'h')]
CYC3SOFT = [(1, 0, 'h'), (2, 1, 'h'), (0, 2, 's')]
TAIL = [(1, 0, 'h'), (2, 1, 'h'), (1, 2, 's')]     # t0 <- t1 <-> t2


def plan(tier):
    out = []
    workers = (1, 2) if tier == 'quick' else (1, 2, 3)
    # cyclic graphs
    for n, edges in ((1, SELF), (2, CYC2), (2, CYC2SOFT), (2, CYC2SS), (3, CYC3), (3, CYC3SOFT), (3, TAIL)):
        for wrk in workers:
            out.append((C.cfg(n, edges, ['ok'] * n, wrk, cyclic=True), 2 if wrk < 3 else 1))
    # single task and 2-task chains, every outcome
    for dep_out in C.ALL:
        for wrk in workers:
            out.append((C.cfg(1, [], [dep_out], wrk), 3 if wrk == 1 else 2))
        for edges in (C.CHAIN2, C.CHAIN2S):
            out.append((C.cfg(2, edges, [dep_out, 'ok'], 2), 2))
            out.append((C.cfg(2, edges, ['ok', dep_out], 2), 1))
    # initial environments: any subset of <= 2 tasks of a 2-chain holds an earlier entry
    for edges in (C.CHAIN2, C.CHAIN2S):
        for st0, st1 in itertools.product((None, 'DONE', 'FAILED', 'SKIPPED'), repeat=2):
            if st0 is None and st1 is None:
                continue
            for clocks in (True, False):
                init = [(i, s, clocks) for i, s in ((0, st0), (1, st1)) if s]
                out.append((C.cfg(2, edges, ['ok', 'ok'], 2, init=init), 1))
                out.append((C.cfg(2, edges, ['ok', 'ok'], 1, init=init), 2))
    # 3-task graphs
    for edges in (C.FORK3HS, C.JOIN3HS, C.CHAIN3HS):
        out.append((C.cfg(3, edges, ['ok'] * 3, 2), 2 if tier == 'thorough' else 1))
        for k in range(3):
            for bad in ('raise', 'notpair'):
                outs = ['ok'] * 3
                outs[k] = bad
                out.append((C.cfg(3, edges, outs, 2), 1))
    out.append((C.cfg(2, [], ['ok', 'ok'], 2), 2))
    out.append((C.cfg(2, [], ['ok', 'ok'], 3), 1))
    if tier == 'thorough':
        out.append((C.cfg(2, C.CHAIN2, ['ok', 'ok'], 2), 3))
        out.append((C.cfg(2, C.CHAIN2, ['ok', 'ok'], 3), 2))
        out.append((C.cfg(1, [], ['ok'], 2), 4))
        for edges in C.forward_dags(3):
            out.append((C.cfg(3, edges, ['ok'] * 3, 2), 1))
            out.append((C.cfg(3, edges, ['ok'] * 3, 3), 0))
        for edges in (C.CHAIN3HS, C.JOIN3HS):
            for sts in itertools.product((None, 'DONE', 'FAILED'), repeat=3):
                init = [(i, s, True) for i, s in enumerate(sts) if s]
                if init:
                    out.append((C.cfg(3, edges, ['ok'] * 3, 2, init=init), 1))
    return out


def run(tier, seed):
    return check.run_configs('C03', plan(tier), seed, 150 if tier == 'quick' else 3000)


def replay(case):
    return check.replay(case)


ENGINE = 'E-sched'
DESIGN_REF = '4/C03'
LEVEL_TEXT = ('For every explored schedule (preemption bound 1-3) of acyclic graphs with every outcome, cyclic graphs (self loop, 2- and 3-cycles, cycles closed only by a soft edge), and initial environments with DONE/FAILED/SKIPPED entries: the run ends with the master returned or raised, every thread it started finished, no thread blocked for ever (deadlock/livelock detection by the controlled scheduler) and the queue empty. A free-running real-thread run in a separate process per configuration class confirms the interpreter exits.')
LEVEL_NOTE = ('Same trusted base as C01; spurious wake-ups are not injected.')
