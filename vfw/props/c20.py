"""C20 - a written report contains every section and every result exactly once."""
import itertools
import os
import re
import shutil
import tempfile

import numpy as np

from ..core.report import Report
from ..core import pool

LEVEL = 'model_checking'
ENGINE = 'E-input'
DESIGN_REF = '5/C20'
TECHNIQUE = ('bounded exhaustive enumeration of report trees (every ordered tree shape with <= 3 sub-sections x every assignment of titles '
             'from an 11-title alphabet (incl. dotted titles) incl. reserved, repeated and invalid names x result placements) written by the real Rst / '
             'FormattedRst.write; the written directory is parsed back (pages, anchors, toctree entries, image targets) and compared with '
             'the tree')
RULE = ('[session: one Rst object formats two of 6 report trees one after the other, both are written afterwards in either order; one formatted report written three times into an empty directory, another report written in between] ' +
        'trees: root + k <= 3 sub-sections in every ordered-tree shape (1 + 1 + 2 + 5 shapes, depth <= 3) [thorough: k = 4, and the chain of '
        'depth 5 and the rejected depth 6]; titles of the sub-sections: every assignment over {A, B, index, conf, figures, v1.0, v1.5, "A " and "index " (trailing blank), "a/b", "..", '
        '"x\\0", ""}; results: none / one per section / two in the last section and one in the root (a failing TestEqual = table, a '
        'TestStudent = plots; MplPlot.save replaced by a stub creating the file); oracle after write(path): one page per section at '
        'path/<titles...>.rst with the root at index.rst, each page holding exactly the text marker of its own section, every result anchor '
        'exactly once over all pages and on its section page, every toctree entry resolving to a written page, every image target present; '
        'a title that is not a valid file name or two sections mapping to the same page must be rejected with ValueError before anything is '
        'written; parallel plot writing (n_workers in {2, 4}) on selected trees; non-trivial = trees with a reserved, repeated or invalid title')
ASSUMPTIONS = ['rendering pixels is not part of the property: MplPlot.save is replaced by a stub that creates the file',
               'two sections that would map to the same page: an explicit ValueError before writing is accepted as "no page is overwritten"',
               'small-scope: <= 3 (4) sub-sections, 9 titles']
LEVEL_TEXT = ('Every report tree with up to 3 sub-sections in every shape and every assignment of titles from an alphabet holding ordinary, '
              'reserved (index, conf, figures), repeated and invalid names is formatted and written to disk by the real code; the directory '
              'is read back and compared with the tree: one page per section at the right path with only its own text, each result anchor '
              'exactly once on the right page, all toctree entries and image targets resolving, nothing written when a title is rejected.')
LEVEL_NOTE = 'file system trusted; Sphinx itself is not run (toctree / image resolution is recomputed from the directives).'

TITLES = ['A', 'B', 'index', 'conf', 'figures', 'v1.0', 'v1.5', 'a/b', '..', 'x\0', '', 'A ', 'index ']
INVALID = {'a/b', '..', 'x\0', '', '.'}


def tree_shapes(k):
    """Ordered rooted trees with k non-root nodes, as parent vectors (parent index, -1 = root), nodes in pre-order."""
    if k == 0:
        return [()]
    out = []

    def rec(parents):
        n = len(parents)
        if n == k:
            out.append(tuple(parents))
            return
        # the next node (pre-order) may be attached to the last node or any of its ancestors (incl. root)
        cand = []
        cur = n - 1
        while cur != -1:
            cand.append(cur)
            cur = parents[cur]
        cand.append(-1)
        for par in cand:
            rec(parents + [par])
    rec([-1])
    return out


def depth_of(parents, i):
    dep = 1
    while parents[i] != -1:
        i = parents[i]
        dep += 1
    return dep


def make_result(kind, name):
    from valjean.eponine.dataset import Dataset
    from valjean.gavroche.test import TestEqual
    from valjean.gavroche.stat_tests.student import TestStudent
    from collections import OrderedDict
    bins = OrderedDict([('e', np.array([0.0, 1.0, 2.0, 3.0]))])          # plots need bins
    one = Dataset(np.array([1.0, 2.0, 3.0]), np.array([0.1, 0.1, 0.1]), bins=bins, name='ref', what='flux')
    two = Dataset(np.array([1.0, 2.5, 3.0]), np.array([0.1, 0.1, 0.1]), bins=bins, name='cmp', what='flux')
    if kind == 'table':
        return TestEqual(one, two, name=name, description=f'desc-{name}').evaluate()
    return TestStudent(one, two, name=name, description=f'desc-{name}').evaluate()


def build_report(parents, titles, placement):
    """Returns (TestReport, sections) where sections = list of dicts {path titles, marker, results [(name, fingerprint)]}."""
    from valjean.javert.test_report import TestReport
    from valjean.fingerprint import fingerprint
    nsec = len(parents) + 1
    results = {i: [] for i in range(nsec)}          # 0 = root, i+1 = sub-section i
    count = 0

    def add(sec, kind):
        nonlocal count
        res = make_result(kind, f'res{count}_{kind}')
        count += 1
        results[sec].append(res)

    if placement == 'each':
        for sec in range(nsec):
            add(sec, 'table' if sec % 2 else 'plot')
    elif placement == 'last2':
        add(nsec - 1, 'table')
        add(nsec - 1, 'plot')
        add(0, 'table')
    nodes = [None] * nsec
    paths = [()] * nsec
    for i, par in enumerate(parents):
        base = paths[par + 1]
        # the page of a section is named after its titles without surrounding blanks (a toctree entry cannot carry them:
        # docutils strips every line of a directive's content)
        paths[i + 1] = base + (titles[i].strip() if titles[i].strip() else titles[i],)
    secs = []
    for sec in reversed(range(nsec)):
        children = [nodes[j + 1] for j, par in enumerate(parents) if par + 1 == sec]
        title = 'Main' if sec == 0 else titles[sec - 1]
        nodes[sec] = TestReport(title=title, text=f'MARKER-{sec}-END', content=children[:1] + results[sec] + children[1:])
    for sec in range(nsec):
        secs.append({'path': paths[sec], 'marker': f'MARKER-{sec}-END',
                     'anchors': [f'anchor_{fingerprint(r.test)}' for r in results[sec]]})
    return nodes[0], secs


def write_report(report, path, n_workers=None):
    from valjean.javert.rst import Rst
    from valjean.javert import representation as rpr
    from valjean.javert.verbosity import Verbosity
    rst = Rst(rpr.Representation(rpr.FullRepresenter(), verbosity=Verbosity.FULL_DETAILS), n_workers=n_workers)
    fmt = rst.format_report(report=report, author='me', version='0')
    fmt.write(path)


def stub_save():
    from valjean.javert.mpl import MplPlot

    def save(self, name='fig.png'):  # pylint: disable=unused-argument
        with open(name, 'wb') as fil:
            fil.write(b'PNG-stub')
    MplPlot.save = save


def list_files(path):
    out = []
    for root, _dirs, files in os.walk(path):
        for fil in files:
            out.append(os.path.relpath(os.path.join(root, fil), path))
    return sorted(out)


def judge(rep, parents, titles, placement, scratch, n_workers=None, prepared=None):
    """prepared = (report, sections, FormattedRst, note): a report formatted beforehand (by a formatter that has formatted other
    reports since); otherwise the report is built, formatted and written here."""
    case = {'parents (-1 = root)': parents, 'titles': [repr(t) for t in titles], 'results': placement, 'n_workers': n_workers}
    if prepared:
        report, secs, fmt, note = prepared
        case['formatter'] = note
    else:
        report, secs = build_report(parents, titles, placement)
    path = os.path.join(scratch, 'report')
    shutil.rmtree(path, ignore_errors=True)
    invalid = [t for t in titles if t in INVALID]
    page_of = {}
    for sec in secs:
        page_of.setdefault(sec['path'], []).append(sec)
    clash = [p for p, lst in page_of.items() if len(lst) > 1] + [p for p in page_of if p == ('index',)]
    special = bool(invalid or clash or any(t in ('index', 'conf', 'figures') for t in titles))
    tag = 'invalid-title' if invalid else ('page-clash' if clash else 'ok')
    try:
        if prepared:
            fmt.write(path)
        else:
            write_report(report, path, n_workers)
        raised = None
    except ValueError as exc:
        raised = exc
    except Exception as exc:  # pylint: disable=broad-except
        rep.violate(f'C20|write-raises|{type(exc).__name__}|{tag}', f'write raised {exc!r}', case, size=len(titles))
        rep.case(nontrivial=(parents, titles, placement) if special else None, outcome=('raises', tag))
        return
    rep.case(nontrivial=(parents, titles, placement, n_workers) if special else None, outcome=('rejected' if raised else 'written', tag))
    files = list_files(path) if os.path.isdir(path) else []
    if invalid or clash:
        if raised is None and invalid:
            rep.violate('C20|invalid-title-accepted', f'titles {titles!r}: no error although {invalid!r} cannot be used as a file name; files {files[:6]}', case, size=len(titles))
            return
        if raised is not None:
            if files:
                rep.violate(f'C20|rejected-after-writing|{tag}', f'titles {titles!r}: ValueError raised but {len(files)} file(s) were already written: {files[:5]}', case, size=len(titles))
            return
        # page clash accepted silently: fall through, the page checks below will show what was lost
    elif raised is not None:
        rep.violate('C20|valid-tree-rejected', f'titles {titles!r}: {raised!r}', case, size=len(titles))
        return
    pages = {f: open(os.path.join(path, f), encoding='utf-8').read() for f in files if f.endswith('.rst')}  # pylint: disable=consider-using-with
    all_markers = [s['marker'] for s in secs]
    for sec in secs:
        rel = os.path.join(*sec['path']) + '.rst' if sec['path'] else 'index.rst'
        if rel not in pages:
            rep.violate(f'C20|page-missing|{tag}', f'section {sec["path"]!r} has no page {rel!r}; pages: {sorted(pages)}', case, size=len(titles))
            continue
        text = pages[rel]
        found = [m for m in all_markers if m in text]
        if found != [sec['marker']]:
            clause = 'page-overwritten' if sec['marker'] not in found else 'page-merged'
            rep.violate(f'C20|{clause}|{tag}', f'page {rel!r} of section {sec["path"]!r} holds the text of sections {found} (own marker {sec["marker"]})', case, size=len(titles))
        for anc in sec['anchors']:
            where = [f for f, txt in pages.items() for _ in range(len(re.findall(r'^\.\. _' + re.escape(anc) + ':', txt, re.M)))]
            if where != [rel]:
                rep.violate(f'C20|result-placement|{tag}', f'result {anc} of section {sec["path"]!r} appears on pages {where}, expected once on {rel!r}', case, size=len(titles))
    if len(pages) != len(set(page_of)) and not clash:
        rep.violate(f'C20|page-count|{tag}', f'{len(pages)} pages for {len(secs)} sections: {sorted(pages)}', case, size=len(titles))
    for rel, text in pages.items():
        base = os.path.dirname(rel)
        for block in re.findall(r'\.\. toctree::\n(?:    :.*\n)*\n((?:    .+\n)+)', text):
            for line in block.splitlines():
                target = os.path.normpath(os.path.join(base, line.strip() + '.rst'))
                if target not in pages:
                    rep.violate(f'C20|toctree-dangling|{tag}', f'page {rel!r}: toctree entry {line.strip()!r} -> {target!r} was not written', case, size=len(titles))
        for img in re.findall(r'^\.\. image:: (\S+)', text, re.M):
            target = img.lstrip('/') if img.startswith('/') else os.path.normpath(os.path.join(base, img))
            if not os.path.isfile(os.path.join(path, target)):
                rep.violate(f'C20|figure-missing|workers={n_workers}', f'page {rel!r} references {img!r} which does not exist', case, size=len(titles))


def job(args):
    k, shape, first_title, tier = args
    rep = Report()
    stub_save()
    scratch = tempfile.mkdtemp(prefix='vf_c20_')
    try:
        for rest in itertools.product(TITLES, repeat=max(k - 1, 0)):
            titles = ((first_title,) + rest) if k else ()
            for placement in ('none', 'each', 'last2'):
                judge(rep, shape, titles, placement, scratch)
        rep.sample({'parents': shape, 'titles': [first_title] + ['index'] * max(k - 1, 0), 'results': 'each'})
    finally:
        shutil.rmtree(scratch, ignore_errors=True)
    return rep


SESSION_TREES = [((), (), 'each'), ((-1,), ('A',), 'each'), ((-1, -1), ('A', 'B'), 'each'), ((-1, 0), ('A', 'B'), 'last2'),
                 ((-1, 0), ('B', 'A'), 'each'), ((-1, -1, 1), ('B', 'conf', 'A'), 'each')]


def session_cases(rep, scratch):
    """One Rst object formats two reports one after the other; both are written afterwards, in either order: each directory
    must hold its own report."""
    from valjean.javert.rst import Rst
    from valjean.javert import representation as rpr
    from valjean.javert.verbosity import Verbosity
    for one, two in itertools.permutations(SESSION_TREES, 2):
        for write_first in (0, 1):
            rst = Rst(rpr.Representation(rpr.FullRepresenter(), verbosity=Verbosity.FULL_DETAILS))
            prepared = []
            for tree in (one, two):
                report, secs = build_report(*tree)
                prepared.append((tree, report, secs, rst.format_report(report=report, author='me', version='0')))
            order = prepared if write_first == 0 else prepared[::-1]
            for tree, report, secs, fmt in order:
                note = f'one Rst object formatted {one} then {two}; this one written {"first" if tree is order[0][0] else "second"}'
                judge(rep, tree[0], tree[1], tree[2], scratch, prepared=(report, secs, fmt, note))
    # the same report object (hence the same result objects) formatted twice by one Rst object, e.g. once per output directory:
    # the second formatted report is as complete as the first (figures included)
    for tree in SESSION_TREES:
        rst = Rst(rpr.Representation(rpr.FullRepresenter(), verbosity=Verbosity.FULL_DETAILS))
        report, secs = build_report(*tree)
        rst.format_report(report=report, author='me', version='0')
        fmt2 = rst.format_report(report=report, author='me', version='0')
        judge(rep, tree[0], tree[1], tree[2], scratch, prepared=(report, secs, fmt2, f'one Rst object formatted the report {tree} twice; second one written'))


    # one formatted report written several times (scratch directory first, final directory later; RstTestReportTask hands the
    # FormattedRst object on to later tasks): every written copy is complete, whatever was written in between
    for one, two in itertools.product(SESSION_TREES, SESSION_TREES[1:4]):
        rst = Rst(rpr.Representation(rpr.FullRepresenter(), verbosity=Verbosity.FULL_DETAILS))
        report, secs = build_report(*one)
        fmt = rst.format_report(report=report, author='me', version='0')
        other = None
        if two is not one:
            report2, secs2 = build_report(*two)
            other = (two, report2, secs2, Rst(rpr.Representation(rpr.FullRepresenter(), verbosity=Verbosity.FULL_DETAILS)).format_report(
                report=report2, author='me', version='0'))
        for nth in (1, 2, 3):
            judge(rep, one[0], one[1], one[2], scratch, prepared=(report, secs, fmt, f'the same FormattedRst written for the {nth}. time into an empty directory'))
            if other and nth == 2:
                judge(rep, two[0], two[1], two[2], scratch, prepared=(other[1], other[2], other[3], 'another formatted report written in between'))


def depth_cases(rep, scratch):
    """Chains of depth 1..6 with ordinary titles: 5 levels are supported, the 6th must be refused."""
    for depth in range(1, 7):
        parents = tuple(range(-1, depth - 1))
        titles = tuple(f'L{i}' for i in range(depth))
        case = {'chain depth': depth}
        report, _ = build_report(parents, titles, 'each')
        path = os.path.join(scratch, 'deep')
        shutil.rmtree(path, ignore_errors=True)
        try:
            write_report(report, path)
            ok = True
        except ValueError:
            ok = False
        rep.case(nontrivial=('depth', depth), outcome=('depth', depth, ok))
        if depth <= 4 and not ok:
            rep.violate('C20|depth|supported-depth-rejected', f'a report with {depth} nested levels was refused', case)
        if ok:
            judge(rep, parents, titles, 'each', scratch)
        elif os.path.isdir(path) and list_files(path):
            rep.violate('C20|depth|rejected-after-writing', f'depth {depth} refused but files were written', case)


def run(tier, seed):
    jobs = []
    kmax = 3 if tier == 'quick' else 4
    for k in range(0, kmax + 1):
        for shape in tree_shapes(k):
            if any(depth_of(shape, i) > 3 for i in range(k)) and tier == 'quick':
                continue
            if k == 0:
                jobs.append((0, shape, None, tier))
            else:
                titles = TITLES if k < 4 else ['A', 'index', 'a/b']
                for first in titles:
                    jobs.append((k, shape, first, tier))
    rep = pool.pmap(job, jobs, seed)
    # parallel plot writing and depth chains run in this (non-daemonic) process
    stub_save()
    scratch = tempfile.mkdtemp(prefix='vf_c20p_')
    try:
        for workers in (2, 4):
            for shape, titles in (((-1,), ('A',)), ((-1, 0), ('A', 'B')), ((-1, -1, -1), ('A', 'B', 'figures'))):
                for placement in ('each', 'last2'):
                    judge(rep, shape, titles, placement, scratch, n_workers=workers)
        depth_cases(rep, scratch)
        session_cases(rep, scratch)
    finally:
        shutil.rmtree(scratch, ignore_errors=True)
    return rep


def replay(case):
    rep = Report()
    stub_save()
    scratch = tempfile.mkdtemp(prefix='vf_c20r_')
    try:
        import ast
        parents = tuple(case['parents (-1 = root)'])
        titles = tuple(ast.literal_eval(t) for t in case['titles'])
        if case.get('formatter'):
            # a session case: the sessions are replayed (they are few) and the problems of the same tree / same note kept
            every = Report()
            session_cases(every, scratch)
            for key, val in every.violations.items():
                if val[1].get('titles') == case['titles'] and val[1].get('formatter') == case['formatter']:
                    rep.violations[key] = val
        else:
            judge(rep, parents, titles, case['results'], scratch, n_workers=case.get('n_workers'))
    finally:
        shutil.rmtree(scratch, ignore_errors=True)
    return {'problems': {k: v[0] for k, v in rep.violations.items()}, 'violates': bool(rep.violations)}
