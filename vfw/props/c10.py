"""C10 - numbers read from Tripoli-4 and Apollo3 outputs are the numbers written there."""
import itertools
import math
import os
import shutil
import tempfile

import numpy as np

from ..core.report import Report
from ..core import pool
from . import t4gen
from .c11 import canon

LEVEL = 'model_checking'
ENGINE = 'E-input'
DESIGN_REF = '5/C10'
TECHNIQUE = ('bounded exhaustive enumeration of generated programs: every synthetic Tripoli-4 listing over a small alphabet of layouts '
             '(editions x responses x zones x energy groups x time steps x printing orders x value/sigma patterns x convergence x keff) '
             'and every Apollo3 HDF5 file over a small alphabet of sizes is written from known ground truth and read back through the real '
             'Parser / Reader / Picker')
RULE = ('[Apollo3 also: a listed isotope (ISOTOPE / CONCEN) without a result group, followed by isotopes that have one] ' +
        'Tripoli-4: listings = product of editions {1,2} x responses {1,2} x zones {1,2} x energy groups {1,2,3} printed decreasing or '
        'increasing x time steps {none, 2 increasing, 2 decreasing [3]} x value patterns {plain, (negative, zero, small[, 1e30])} x sigma '
        'patterns x {converged, not converged} x keff {absent, present, not converged}, plus angular spectra (2-3 mu zones, 0-2 phi zones inside, each '
        'printed increasing or decreasing, with / without time steps) and results on a mesh (5 mesh sizes up to 2x1x3 cells x energy ranges, '
        'energy-integrated cells, total); for every edition (by number and by index) every '
        'dataset of the browser is compared cell by cell with the printed value, value*sigma%/100, increasing bin edges and the response / '
        'score / zone metadata (values are unique per edition, response, zone, time step and group so that a swap cannot cancel). '
        'Apollo3: files = product of NOUT {1,2} x NZONE {1,2} x NG {1,2} x NISOT {0,1,2} x reactions {1,2} x total outputs present/absent, plus 2-3 outputs on one shared geometry with equal / rotated isotope lists and '
        'user-value files (flat / grouped local values); '
        'Reader.to_browser() and every Picker.pick_* are compared with the stored arrays. non-trivial = listings with a decreasing '
        'printing order, several editions/zones or a special value; files with more than one output/zone/isotope')
ASSUMPTIONS = ['the generated listings cover the spectrum / time-spectrum / integrated / keff / not-converged layouts of the shipped examples, '
               'not every layout the grammar knows (meshes, Green bands, sensitivities, IFP, kij: robustness only, through C11)',
               'a not-converged result is expected as NaN (no number is printed)',
               'HDF5 layout as documented in hdf5_reader.py; h5py trusted']
LEVEL_TEXT = ('Thousands of listings generated from enumerated ground truth (all combinations of a small layout alphabet, including both '
              'printing orders of energy groups and time steps, negative / zero values, 0% and 100% sigma, not-converged results, two '
              'editions) are parsed by the real scanner + grammar + builders and every dataset of every edition is compared cell by cell '
              '(value, error, bins, metadata); Apollo3 files of every small size combination are written with h5py and read back through '
              'Reader and Picker. Exhaustive over this alphabet.')
LEVEL_NOTE = 'printed numbers are the ground truth after the 6-digit formatting Tripoli-4 uses; h5py and pyparsing trusted.'


def ff(x):
    return float(t4gen.fmt(x))


def close(a, b, rtol=1e-12):
    a, b = float(a), float(b)
    if math.isnan(a) or math.isnan(b):
        return math.isnan(a) and math.isnan(b)
    return abs(a - b) <= rtol * max(abs(a), abs(b)) + 1e-300


class Scratch:
    def __init__(self):
        self.dir = tempfile.mkdtemp(prefix='vf_c10_')

    def close(self):
        shutil.rmtree(self.dir, ignore_errors=True)


# ------------------------------------------------------------------ Tripoli-4
def check_mesh(rep, tag, case, item, resp, zone):
    """Compare one browser item with one printed 'Results on a mesh' block."""
    res = item['results']

    def bad(clause, text):
        rep.violate(f'C10|t4|mesh-{clause}|{tag}', text, case, size=len(str(case)))

    for key, exp in (('response_function', resp['function']), ('response_name', resp['name']), ('score_name', resp['score_name']),
                     ('scoring_zone_type', 'Mesh')):
        if item.get(key) != exp:
            bad('metadata', f'{key}={item.get(key)!r}, printed {exp!r}')
    edges_inc = sorted(ff(e) for e in zone['egroups'])
    edges_dec = [ff(e) for e in zone['egroups']]
    groups = list(zip(edges_dec[:-1], edges_dec[1:]))
    printed = groups[::-1] if zone['e_increasing_print'] else groups
    gindex = {(min(g), max(g)): i for i, g in enumerate(printed)}
    ncell = zone['mesh']
    score = res.get('score')
    if score is None:
        bad('missing', 'no score dataset')
        return
    val, err = np.asarray(score.value), np.asarray(score.error)
    if val.shape != tuple(ncell) + (len(groups), 1, 1, 1):
        bad('shape', f'score shape {val.shape}, printed mesh {ncell} x {len(groups)} groups')
        return
    if not np.array_equal(np.asarray(score.bins['e']), np.array(edges_inc)):
        bad('bins-e', f"e bins {np.asarray(score.bins['e']).tolist()}, printed boundaries sorted {edges_inc}")
        return
    for axis, name in enumerate('uvw'):
        if list(np.asarray(score.bins[name])) != list(range(ncell[axis])):
            bad('bins-space', f'{name} bins {np.asarray(score.bins[name]).tolist()} for {ncell[axis]} printed cells')
    integ = res.get('score_eintegrated')
    for cell in itertools.product(*(range(n) for n in ncell)):
        for ie in range(len(groups)):
            pval, psig = zone['cells'][('mesh', gindex[(edges_inc[ie], edges_inc[ie + 1])], cell)]
            pval, psig = ff(pval), ff(psig)
            gval, gerr = val[cell + (ie, 0, 0, 0)], err[cell + (ie, 0, 0, 0)]
            if not close(gval, pval):
                bad('value', f'cell {cell} e=[{edges_inc[ie]}, {edges_inc[ie + 1]}]: value {gval!r}, printed {pval!r}')
            if not close(gerr, pval * psig / 100.0):
                bad('error', f'cell {cell} e=[{edges_inc[ie]}, {edges_inc[ie + 1]}]: error {gerr!r}, printed {pval!r} x {psig!r}%')
        if integ is not None and np.shape(integ.value)[:3] == tuple(ncell):
            pval, psig = (ff(x) for x in zone['cells'][('mesh', None, cell)])
            gval, gerr = np.asarray(integ.value)[cell].ravel()[0], np.asarray(integ.error)[cell].ravel()[0]
            if not close(gval, pval):
                bad('integrated-value', f'energy-integrated cell {cell}: value {gval!r}, printed {pval!r}')
            if not close(gerr, pval * psig / 100.0):
                bad('integrated-error', f'energy-integrated cell {cell}: error {gerr!r}, printed {pval!r} x {psig!r}%')
    if integ is None or np.shape(integ.value)[:3] != tuple(ncell):
        bad('missing', f'score_eintegrated {None if integ is None else np.shape(integ.value)} for the printed mesh {ncell}')
    tot = res.get('score_integrated')
    pint = zone['integrated'][None]
    if tot is None:
        bad('missing', 'no score_integrated dataset')
    else:
        tval, terr = np.asarray(tot.value).ravel(), np.asarray(tot.error).ravel()
        if tval.size != 1 or not close(tval[0], ff(pint[0])) or not close(terr[0], ff(pint[0]) * ff(pint[1]) / 100.0):
            bad('integrated-value', f'score_integrated {tval.tolist()} +- {terr.tolist()}, printed {ff(pint[0])!r} x {ff(pint[1])!r}%')
    used = res.get('used_batches')
    if used is not None and int(used.value) != zone['used']:
        bad('used-batches', f'used_batches {used.value!r}, printed {zone["used"]}')


def check_zone(rep, tag, case, item, resp, zone):
    """Compare one browser item with one printed scoring zone."""
    if zone.get('mesh'):
        check_mesh(rep, tag, case, item, resp, zone)
        return
    res = item['results']

    def bad(clause, text):
        rep.violate(f'C10|t4|{clause}|{tag}', text, case, size=len(str(case)))

    for key, exp in (('response_function', resp['function']), ('response_name', resp['name']), ('score_name', resp['score_name']),
                     ('scoring_zone_id', (zone['vol'] + 1, zone['vol']) if zone.get('mus') else zone['vol'])):
        if item.get(key) != exp:
            bad('metadata', f'{key}={item.get(key)!r}, printed {exp!r}')
    edges_inc = sorted(ff(e) for e in zone['egroups'])
    edges_dec = [ff(e) for e in zone['egroups']]
    groups = list(zip(edges_dec[:-1], edges_dec[1:]))               # (high, low), decreasing
    printed = groups[::-1] if zone['e_increasing_print'] else groups
    gindex = {(min(g), max(g)): i for i, g in enumerate(printed)}   # interval -> printed index
    tsteps = zone['tsteps']
    score = res.get('score')
    if score is None:
        bad('missing', 'no score dataset')
        return
    val, err = np.asarray(score.value), np.asarray(score.error)
    if not np.array_equal(np.asarray(score.bins['e']), np.array(edges_inc)):
        bad('bins-e', f"e bins {np.asarray(score.bins['e']).tolist()}, printed boundaries sorted {edges_inc}")
        return
    if tsteps:
        tb = sorted(set(ff(x) for ts in tsteps for x in ts))
        if not np.array_equal(np.asarray(score.bins['t']), np.array(tb)):
            bad('bins-t', f"t bins {np.asarray(score.bins['t']).tolist()}, printed boundaries sorted {tb}")
            return
        tindex = {(ff(ts[0]), ff(ts[1])): i for i, ts in enumerate(tsteps)}
    mus, phis = zone.get('mus'), zone.get('phis')
    axes = {}
    for name, steps in (('mu', mus), ('phi', phis)):
        if not steps:
            continue
        bounds = sorted(set(ff(x) for st in steps for x in st))
        if not np.array_equal(np.asarray(score.bins[name]), np.array(bounds)):
            bad(f'bins-{name}', f"{name} bins {np.asarray(score.bins[name]).tolist()}, printed boundaries sorted {bounds}")
            return
        axes[name] = (bounds, {(ff(st[0]), ff(st[1])): i for i, st in enumerate(steps)})
    exp_shape = (1, 1, 1, len(groups), len(tsteps) if tsteps else 1, len(mus) if mus else 1, len(phis) if phis else 1)
    if val.shape != exp_shape:
        bad('shape', f'score shape {val.shape}, expected {exp_shape}')
        return
    for ie, it, im, ip in itertools.product(*(range(n) for n in exp_shape[3:])):
        gpr = gindex[(edges_inc[ie], edges_inc[ie + 1])]
        tpr = None if not tsteps else tindex[(tb[it], tb[it + 1])]
        mpr = None if not mus else axes['mu'][1][(axes['mu'][0][im], axes['mu'][0][im + 1])]
        ppr = None if not phis else axes['phi'][1][(axes['phi'][0][ip], axes['phi'][0][ip + 1])]
        pval, psig = zone['cells'][t4gen.cell_key(tpr, mpr, ppr, gpr)]
        pval, psig = ff(pval), ff(psig)
        gval, gerr = val[0, 0, 0, ie, it, im, ip], err[0, 0, 0, ie, it, im, ip]
        where = f'cell e=[{edges_inc[ie]}, {edges_inc[ie + 1]}] t-index {it}' + (f' mu-index {im} phi-index {ip}' if mus else '')
        if not close(gval, pval):
            bad('value', f'{where}: value {gval!r}, printed {pval!r}')
        if not close(gerr, pval * psig / 100.0):
            bad('error', f'{where}: error {gerr!r}, printed {pval!r} x {psig!r}%')
    if mus:
        return                # angular spectra carry no energy-integrated result
    ikey = 'score_eintegrated' if tsteps else 'score_integrated'
    integ = res.get(ikey)
    if integ is None:
        bad('missing', f'no {ikey} dataset')
    else:
        ival, ierr = np.asarray(integ.value).ravel(), np.asarray(integ.error).ravel()
        nint = len(tsteps) if tsteps else 1
        if ival.size != nint:
            bad('shape', f'{ikey} has {ival.size} values for {nint} time steps')
        else:
            for it in range(nint):
                tpr = None if not tsteps else tindex[(tb[it], tb[it + 1])]
                pint = zone['integrated'][tpr]
                if pint is None:
                    if not (math.isnan(ival[it]) and math.isnan(ierr[it])):
                        bad('not-converged', f'{ikey}[{it}] = {ival[it]!r} +- {ierr[it]!r} although NOT YET CONVERGED was printed')
                else:
                    if not close(ival[it], ff(pint[0])):
                        bad('integrated-value', f'{ikey}[{it}] = {ival[it]!r}, printed {ff(pint[0])!r}')
                    if not close(ierr[it], ff(pint[0]) * ff(pint[1]) / 100.0):
                        bad('integrated-error', f'{ikey}[{it}] error {ierr[it]!r}, printed {ff(pint[0])!r} x {ff(pint[1])!r}%')
        if tsteps and 't' in integ.bins and not np.array_equal(np.asarray(integ.bins['t']), np.array(tb)):
            bad('bins-t', f"{ikey} t bins {np.asarray(integ.bins['t']).tolist()}, printed {tb}")
    used = res.get('used_batches')
    if zone['integrated'][None if not tsteps else 0] is not None and used is not None and int(used.value) != zone['used']:
        bad('used-batches', f'used_batches {used.value!r}, printed {zone["used"]}')


def check_keff(rep, tag, case, items, keff):
    def bad(clause, text):
        rep.violate(f'C10|t4|keff-{clause}|{tag}', text, case, size=len(str(case)))

    kitems = [it for it in items if it.get('response_type') == 'keff']
    auto = [it for it in items if it.get('response_type') == 'keff_auto']
    if keff.get('not_converged'):
        for itm in kitems + auto:
            for key in ('keff', 'keff_auto'):
                if key in itm['results'] and not math.isnan(float(itm['results'][key].value)):
                    bad('not-converged', f'{key} = {itm["results"][key].value!r} although NOT YET CONVERGED was printed')
        if not kitems:
            bad('missing', 'no keff item')
        return
    exp = {est: keff[est] for est in ('KSTEP', 'KCOLL', 'KTRACK')}
    exp.update({f'{a}-{b}': (v, s) for (a, b), (_, v, s) in keff['combined'].items()})
    exp['full combination'] = keff['full']
    cors = {f'{a}-{b}': c for (a, b), (c, _, _) in keff['combined'].items()}
    seen = set()
    for itm in kitems:
        est = itm.get('keff_estimator')
        if est not in exp:
            bad('estimator', f'unexpected estimator {est!r}')
            continue
        seen.add(est)
        pval, psig = ff(exp[est][0]), ff(exp[est][1])
        got = itm['results']['keff']
        if not close(got.value, pval) or not close(got.error, pval * psig / 100.0):
            bad('value', f'{est}: {got.value!r} +- {got.error!r}, printed {pval!r} with sigma {psig!r}%')
        if est in cors and not close(itm['results']['correlation_keff'].value, ff(cors[est])):
            bad('correlation', f'{est}: correlation {itm["results"]["correlation_keff"].value!r}, printed {ff(cors[est])!r}')
        if int(itm['results']['used_batches'].value) != keff['used']:
            bad('used-batches', f'{est}: used_batches {itm["results"]["used_batches"].value!r}, printed {keff["used"]}')
    if seen != set(exp):
        bad('missing', f'estimators read {sorted(seen)}, printed {sorted(exp)}')
    seen = set()
    for itm in auto:
        est = itm.get('keff_estimator')
        seen.add(est)
        pval, psig = keff['best_' + est]
        got = itm['results']['keff_auto'] if 'keff_auto' in itm['results'] else itm['results']['keff']
        if not close(got.value, ff(pval)) or not close(got.error, ff(pval * psig / 100), 1e-6):
            bad('auto-value', f'{est} (best estimation): {got.value!r} +- {got.error!r}, printed {ff(pval)!r} sigma% {psig!r}')
        if int(itm['results']['used_batches'].value) != keff['used'] - 2 or int(itm['results']['discarded_batches'].value) != 2:
            bad('auto-batches', f'{est}: used {itm["results"]["used_batches"].value!r} discarded {itm["results"]["discarded_batches"].value!r}')
    if seen != {'KSTEP', 'KCOLL', 'KTRACK'}:
        bad('missing', f'best estimations read for {sorted(seen)}')


def check_listing(rep, scr, params):
    from valjean.eponine.tripoli4.parse import Parser
    spec = t4gen.make_spec(**params)
    path = os.path.join(scr.dir, 'listing.res')
    with open(path, 'w', encoding='utf-8') as fil:
        fil.write(t4gen.render(spec))
    case = {'format': 'tripoli4', 'make_spec': params}
    tag = (f"e={'inc' if params['e_inc'] else 'dec'}|t={0 if not params['ntsteps'] else ('inc' if params['t_inc'] else 'dec')}"
           f"|conv={params['converged']}")
    if params.get('mesh'):
        tag += '|mesh'
    if params.get('nmu'):
        tag += f"|mu={'inc' if params['mu_inc'] else 'dec'}|phi={0 if not params['nphi'] else ('inc' if params['phi_inc'] else 'dec')}"
    nont = params['e_inc'] is False or (params['ntsteps'] and not params['t_inc']) or params['neditions'] > 1 \
        or params['nzones'] > 1 or len(params['values']) > 1 or not params['converged'] or params.get('nmu') or params.get('mesh')
    rep.case(nontrivial=repr(sorted(params.items())) if nont else None,
             outcome=('t4', params['neditions'], params['ntsteps'], params['keff']))
    try:
        par = Parser(path)
        nums = par.batch_numbers()
    except Exception as exc:  # pylint: disable=broad-except
        rep.violate(f'C10|t4|scan-raises|{type(exc).__name__}', f'Parser() raised {exc!r} on a generated listing', case)
        return
    exp_nums = [e['batch'] for e in spec['editions']]
    if nums != exp_nums:
        rep.violate(f'C10|t4|editions|{tag}', f'editions {nums}, printed {exp_nums}', case)
        return
    for idx, edi in enumerate(spec['editions']):
        try:
            pres = par.parse_from_number(edi['batch'])
            pidx = par.parse_from_index(idx)
            pneg = par.parse_from_index(idx - len(nums))
        except Exception as exc:  # pylint: disable=broad-except
            rep.violate(f'C10|t4|parse-raises|{type(exc).__name__}|{tag}', f'edition {edi["batch"]}: {exc!r}', case)
            continue
        cnum = canon(pres.res)
        if canon(pidx.res) != cnum or canon(pneg.res) != cnum:
            rep.violate(f'C10|t4|edition-by-index|{tag}', f'edition {edi["batch"]}: parse_from_index({idx}) / ({idx - len(nums)}) differ from parse_from_number', case)
        bdata = pres.res['batch_data']
        if bdata.get('batch_number') != edi['batch'] or bdata.get('simulation_time') != edi['time'] \
                or bdata.get('edition_batch_number') != edi['batch']:
            rep.violate(f'C10|t4|batch-data|{tag}', f'edition {edi["batch"]}: batch_data {bdata}', case)
        items = pres.to_browser().content
        scores = [it for it in items if it.get('response_type') == 'score']
        nexp = sum(len(r['zones']) for r in edi['responses'])
        if len(scores) != nexp:
            rep.violate(f'C10|t4|items|{tag}', f'edition {edi["batch"]}: {len(scores)} score items for {nexp} printed zones', case)
            continue
        k = 0
        for resp in edi['responses']:
            for zone in resp['zones']:
                check_zone(rep, tag, case, scores[k], resp, zone)
                k += 1
        if edi.get('keff'):
            check_keff(rep, tag, case, items, edi['keff'])


def t4_params(tier):
    out = []
    tvars = [(0, True), (2, True), (2, False)] + ([(3, False), (3, True)] if tier == 'thorough' else [])
    vpats = [('plain',), ('neg', 'zero', 'small')] + ([('big', 'neg')] if tier == 'thorough' else [])
    spats = [(1.5,), (1.5, 100.0, 0.0, 2.5)]
    for ned, nre, nzo, neg, einc, (nts, tinc), vals, sigs, conv, keff in itertools.product(
            (1, 2) if tier == 'quick' else (1, 2, 3), (1, 2), (1, 2), (1, 2, 3), (False, True), tvars, vpats, spats, (True, False),
            (None, 'ok', 'not_converged')):
        if keff is not None and (nre, nzo) != (1, 1):       # the keff block does not interact with the number of zones
            continue
        out.append(dict(neditions=ned, nresp=nre, nzones=nzo, negroups=neg, e_inc=einc, ntsteps=nts, t_inc=tinc,
                        values=vals, sigmas=sigs, converged=conv, keff=keff))
    # angular spectra (layout of gauss_E_time_mu_phi): mu zones, optionally phi zones inside, each printed increasing or decreasing
    avars = [(2, True, 0, True), (2, False, 0, True), (2, True, 2, False), (2, False, 2, True), (3, False, 2, False)]
    if tier == 'thorough':
        avars += [(3, True, 3, True), (3, False, 3, False), (2, False, 3, False)]
    for ned, nzo, neg, einc, (nts, tinc), (nmu, minc, nphi, pinc), vals in itertools.product(
            (1, 2), (1, 2), (1, 2), (False, True), tvars[:3], avars, vpats[:2]):
        out.append(dict(neditions=ned, nresp=1, nzones=nzo, negroups=neg, e_inc=einc, ntsteps=nts, t_inc=tinc, values=vals,
                        sigmas=(1.5, 100.0, 0.0, 2.5), converged=True, keff=None, nmu=nmu, mu_inc=minc, nphi=nphi, phi_inc=pinc))
    # results on a mesh (layout of tungstene / cylindreDecR_with_kij_on_mesh): cells x energy ranges, energy-integrated cells, total
    meshes = [(1, 1, 1), (2, 1, 1), (1, 1, 3), (2, 2, 1), (2, 1, 3)] + ([(2, 3, 2), (3, 1, 2)] if tier == 'thorough' else [])
    for ned, nre, neg, einc, mesh, vals, sigs in itertools.product((1, 2), (1, 2), (1, 2, 3), (False, True), meshes, vpats[:2], spats):
        out.append(dict(neditions=ned, nresp=nre, nzones=1, negroups=neg, e_inc=einc, ntsteps=0, t_inc=True, values=vals, sigmas=sigs,
                        converged=True, keff=None, mesh=mesh))
    return out


def job_t4(chunk):
    rep = Report()
    scr = Scratch()
    try:
        for params in chunk:
            check_listing(rep, scr, params)
    finally:
        scr.close()
    rep.sample({'tripoli4 listing': chunk[len(chunk) // 2]})
    return rep


# ------------------------------------------------------------------ Apollo3
def job_ap3(chunk):
    from . import ap3gen
    rep = Report()
    scr = Scratch()
    try:
        for params in chunk:
            ap3gen.check_file(rep, scr.dir, params)
    finally:
        scr.close()
    rep.sample({'apollo3 file': chunk[len(chunk) // 2]})
    return rep


def _call(job):
    return job[0](job[1])


def run(tier, seed):
    from . import ap3gen
    params = t4_params(tier)
    jobs = [(job_t4, params[i:i + 40]) for i in range(0, len(params), 40)]
    apar = ap3gen.params(tier)
    jobs += [(job_ap3, apar[i:i + 12]) for i in range(0, len(apar), 12)]
    rep = pool.pmap(_call, jobs, seed)
    rep.extra['tripoli4_listings'] = len(params)
    rep.extra['apollo3_files'] = len(apar)
    return rep


def replay(case):
    rep = Report()
    scr = Scratch()
    try:
        if case.get('format') == 'tripoli4':
            params = dict(case['make_spec'])
            params['values'], params['sigmas'] = tuple(params['values']), tuple(params['sigmas'])
            check_listing(rep, scr, params)
        else:
            from . import ap3gen
            ap3gen.check_file(rep, scr.dir, case['params'])
    finally:
        scr.close()
    return {'problems': {k: v[0] for k, v in rep.violations.items()}, 'violates': bool(rep.violations)}
