"""C19 - a failing command is never reported as done and its output is captured intact."""
import itertools
import os
import shlex
import shutil
import signal
import tempfile

from ..core.report import Report
from ..core import pool

LEVEL = 'model_checking'
ENGINE = 'E-input'
DESIGN_REF = '5/C19'
TECHNIQUE = ('bounded exhaustive enumeration of command lists (every list of length 0-3 over 7 command kinds: success with output on both '
             'streams, exit 1, exit 3, death by signal, missing executable, non-executable file) and of task names, executed with real '
             'subprocesses by the real RunTask through the real Scheduler; files and environment compared with a reference interpreter '
             'of the list')
RULE = ('every command list of length 0-3 (thorough 0-4) over {ok, exit 1, exit 3, killed by SIGKILL, killed by SIGTERM, missing executable, '
        'non-executable file} (each ok command writes oK to stdout, eK to stderr and touches marker K in the task directory); task names '
        '{t, "a b", e-acute, "a/b", ".", "..", "x\\0y", ""}; pairs of tasks with different names sharing one output root; each task is run by '
        'Scheduler.schedule() with one worker under a watchdog. Oracle: DONE iff every command ran and exited 0; nothing runs after the '
        'first failure (markers); a command that cannot start gives a FAILED task and a normal return of schedule(); return_codes = codes '
        'of the commands run; stdout file = concatenated oK, stderr file = the eK in order (echoed command lines ignored); invalid names give FAILED; '
        'two tasks never share a directory; (code tasks) CheckoutTask and BuildTask (0-3 targets) with a stand-in git / cmake whose n-th '
        'invocation ends 0 / 1 / 3 / SIGTERM as planned (all plans up to 4 invocations) or does not exist: DONE iff every invocation made exited '
        '0, none made after the first failure, log holds the output of the invocations in order; non-trivial = lists with at least one failing command')
ASSUMPTIONS = ['/bin/sh is available; exit statuses as returned by subprocess.call (negative = signal)',
               'one worker thread, default schedule (the interleavings of the scheduler are C01-C03\'s business)',
               'small-scope: <= 3 commands per task']
LEVEL_TEXT = ('All 400 command lists of length <= 3 over 7 command kinds are executed for real by RunTask under the scheduler and the '
              'final status, return codes, marker files and captured stdout/stderr are compared with a reference interpretation of the '
              'list; every task name of a small alphabet (incl. invalid and empty names) and every pair of distinct names in one output '
              'root is checked for directory separation.')
LEVEL_NOTE = 'real subprocesses and file system; watchdog for hangs.'

KINDS = ('ok', 'exit1', 'exit3', 'sigkill', 'sigterm', 'missing', 'noexec')


def command(kind, pos, scratch):
    if kind == 'ok':
        return ['/bin/sh', '-c', f'printf o{pos}; echo e{pos} >&2; touch marker{pos}']
    if kind == 'exit1':
        return ['/bin/sh', '-c', f'printf o{pos}; echo e{pos} >&2; touch marker{pos}; exit 1']
    if kind == 'exit3':
        return ['/bin/sh', '-c', f'touch marker{pos}; exit 3']
    if kind == 'sigkill':
        return ['/bin/sh', '-c', f'touch marker{pos}; kill -KILL $$']
    if kind == 'sigterm':
        return ['/bin/sh', '-c', f'touch marker{pos}; kill -TERM $$']
    if kind == 'missing':
        return [os.path.join(scratch, 'no-such-executable'), f'arg{pos}']
    return [os.path.join(scratch, 'not-executable'), f'arg{pos}']


def interpret(kinds, clis):
    """Reference: (status, return codes or None if a command could not start, markers, stdout, stderr)."""
    codes, markers, out, err = [], [], '', ''
    for pos, (kind, cli) in enumerate(zip(kinds, clis)):
        err += '$ ' + ' '.join(shlex.quote(tok) for tok in cli) + '\n'
        if kind in ('missing', 'noexec'):
            return 'FAILED', None, markers, out, err
        markers.append(f'marker{pos}')
        if kind in ('ok', 'exit1'):
            out += f'o{pos}'
            err += f'e{pos}\n'
        code = {'ok': 0, 'exit1': 1, 'exit3': 3, 'sigkill': -9, 'sigterm': -15}[kind]
        codes.append(code)
        if code != 0:
            return 'FAILED', codes, markers, out, err
    return 'DONE', codes, markers, out, err


class Watchdog(Exception):
    pass


def _alarm(_sig, _frm):
    raise Watchdog()


def schedule(tasks, root):
    from valjean.cosette.depgraph import DepGraph
    from valjean.cosette.scheduler import Scheduler
    from valjean.cosette.backends.queue import QueueScheduling
    from valjean.config import Config
    graph = DepGraph()
    for tsk in tasks:
        graph.add_node(tsk)
    conf = Config()
    conf.set('path', 'output-root', root)
    signal.alarm(60)
    try:
        return Scheduler(hard_graph=graph, backend=QueueScheduling(n_workers=1)).schedule(config=conf)
    finally:
        signal.alarm(0)


def job_lists(first):
    from valjean.cosette.run import RunTask
    rep = Report()
    signal.signal(signal.SIGALRM, _alarm)
    scratch = tempfile.mkdtemp(prefix='vf_c19_')
    with open(os.path.join(scratch, 'not-executable'), 'w', encoding='utf-8') as fil:
        fil.write('#!/bin/sh\nexit 0\n')
    try:
        lists = [()] if first is None else [(first,) + rest for num in ((1, 2, 3, 4) if TIER[0] == 'thorough' else (1, 2, 3)) for rest in itertools.product(KINDS, repeat=num - 1)]
        for kinds in lists:
            root = tempfile.mkdtemp(prefix='run_', dir=scratch)
            clis = [command(k, pos, scratch) for pos, k in enumerate(kinds)]
            case = {'commands': kinds}
            exp_status, exp_codes, exp_markers, exp_out, exp_err = interpret(kinds, clis)
            fail = [k for k in kinds if k != 'ok']
            tag = (fail[0] if fail else 'all-ok')
            try:
                env = schedule([RunTask.from_clis('t', clis)], root)
            except Watchdog:
                rep.violate(f'C19|hang|{tag}', 'schedule() did not come back within 60 s', case, size=len(kinds))
                continue
            except Exception as exc:  # pylint: disable=broad-except
                rep.violate(f'C19|run-aborted|{type(exc).__name__}|{tag}', f'schedule() raised {exc!r}: the failure of a command took the run down', case, size=len(kinds))
                continue
            ent = env.get('t', {})
            got_status = getattr(ent.get('status'), 'name', repr(ent.get('status')))
            rep.case(nontrivial=kinds if fail else None, outcome=(got_status, tag))
            if got_status != exp_status:
                rep.violate(f'C19|status|{tag}|exp={exp_status}|got={got_status}', f'commands {kinds}: task is {got_status}, expected {exp_status}', case, size=len(kinds))
            tdir = os.path.join(root, 't')
            present = sorted(f for f in os.listdir(tdir) if f.startswith('marker')) if os.path.isdir(tdir) else []
            if present != sorted(exp_markers):
                rep.violate(f'C19|commands-run|{tag}', f'commands {kinds}: markers {present}, expected {sorted(exp_markers)} '
                            '(a command ran after a failure, or one did not run)', case, size=len(kinds))
            if exp_codes is not None:
                if ent.get('return_codes') != exp_codes:
                    rep.violate(f'C19|return-codes|{tag}', f'commands {kinds}: return_codes {ent.get("return_codes")}, expected {exp_codes}', case, size=len(kinds))
                for key, exp in (('stdout', exp_out), ('stderr', exp_err)):
                    path = ent.get(key)
                    if not path or not os.path.isfile(path):
                        rep.violate(f'C19|capture-missing|{key}', f'commands {kinds}: no {key} file ({path!r})', case, size=len(kinds))
                        continue
                    with open(path, encoding='utf-8') as fil:
                        got = fil.read()
                    if key == 'stderr':
                        # the echo of each command line ('$ ...') is a courtesy of run(): only what the commands wrote is judged
                        got = ''.join(ln for ln in got.splitlines(keepends=True) if not ln.startswith('$ '))
                        exp = ''.join(ln for ln in exp.splitlines(keepends=True) if not ln.startswith('$ '))
                    if got != exp:
                        rep.violate(f'C19|capture|{key}|{tag}', f'commands {kinds}: {key} holds {got!r}, expected {exp!r}', case, size=len(kinds))
                    if os.path.dirname(os.path.realpath(path)) != os.path.realpath(tdir):
                        rep.violate(f'C19|capture-location|{key}', f'{key} file {path} is not in the task directory {tdir}', case, size=len(kinds))
            shutil.rmtree(root, ignore_errors=True)
        rep.sample({'commands': lists[len(lists) // 2]})
    finally:
        shutil.rmtree(scratch, ignore_errors=True)
    return rep


NAMES = ['t', 'a b', 'é', 'a/b', '.', '..', 'x\0y', '', 'T', 't ']
VALID = {'t', 'a b', 'é', 'T', 't '}


def job_names(_arg):
    from valjean.cosette.run import RunTask
    rep = Report()
    signal.signal(signal.SIGALRM, _alarm)
    scratch = tempfile.mkdtemp(prefix='vf_c19n_')
    try:
        def mk(name, tag):
            return RunTask.from_clis(name, [['/bin/sh', '-c', f'printf {tag}; touch own_{tag}']])

        for name in NAMES:
            root = tempfile.mkdtemp(prefix='one_', dir=scratch)
            case = {'task name': name}
            try:
                env = schedule([mk(name, 'A')], root)
            except Exception as exc:  # pylint: disable=broad-except
                rep.violate(f'C19|name|run-aborted|{type(exc).__name__}', f'task named {name!r}: schedule() raised {exc!r}', case)
                continue
            status = getattr(env.get(name, {}).get('status'), 'name', None)
            rep.case(nontrivial=name if name not in VALID else None, outcome=('name', status))
            if name in VALID and status != 'DONE':
                rep.violate('C19|name|valid-name-fails', f'task named {name!r} ended {status}', case)
            if name not in VALID:
                # an invalid file name must not silently run in somebody else's directory
                outdir = env.get(name, {}).get('output_dir')
                if status == 'DONE' and (outdir is None or os.path.realpath(outdir) == os.path.realpath(root)
                                          or os.path.dirname(os.path.realpath(outdir)) != os.path.realpath(root)):
                    rep.violate(f'C19|name|no-own-directory|name={name!r}', f'task named {name!r} is DONE with output directory {outdir!r}: '
                                'not a directory of its own under the output root', case)
        for one, two in itertools.permutations(sorted(VALID) + [''], 2):
            root = tempfile.mkdtemp(prefix='two_', dir=scratch)
            case = {'task names': [one, two]}
            try:
                env = schedule([mk(one, 'A'), mk(two, 'B')], root)
            except Exception as exc:  # pylint: disable=broad-except
                rep.violate(f'C19|name|run-aborted|{type(exc).__name__}', f'tasks {one!r}, {two!r}: schedule() raised {exc!r}', case)
                continue
            dirs = {}
            for name, tag in ((one, 'A'), (two, 'B')):
                ent = env.get(name, {})
                if getattr(ent.get('status'), 'name', None) == 'DONE':
                    dirs[name] = (os.path.realpath(ent['output_dir']), tag)
            rep.case(nontrivial=(one, two), outcome=('pair', len(dirs)))
            if len(dirs) == 2:
                (d_one, _), (d_two, _) = dirs[one], dirs[two]
                if d_one == d_two or d_one.startswith(d_two + os.sep) or d_two.startswith(d_one + os.sep):
                    rep.violate('C19|name|shared-directory', f'tasks {one!r} and {two!r} use directories {d_one} and {d_two}', case)
                for name, (dname, tag) in dirs.items():
                    files = set(os.listdir(dname)) - {'stdout', 'stderr'}
                    other = {'A': 'own_B', 'B': 'own_A'}[tag]
                    if other in files:
                        rep.violate('C19|name|foreign-files', f'directory of {name!r} contains files of the other task: {sorted(files)}', case)
                    with open(os.path.join(dname, 'stdout'), encoding='utf-8') as fil:
                        if fil.read() != tag:
                            rep.violate('C19|name|capture-mixed', f'stdout of {name!r} does not hold its own output', case)
            shutil.rmtree(root, ignore_errors=True)
        rep.sample({'task names': ['t', 'a b']})
    finally:
        shutil.rmtree(scratch, ignore_errors=True)
    return rep


# ------------------------------------------------------------------ checkout / build tasks (valjean.cosette.code)
TOOL = """#!/bin/sh
# stand-in for git / cmake: journals its invocation, writes to both streams, ends as the plan says
n=$(cat "$VF_J/count" 2>/dev/null || echo 0)
echo "$n $*" >> "$VF_J/journal"
echo $((n + 1)) > "$VF_J/count"
echo "out$n"
echo "err$n" >&2
code=$(sed -n "$((n + 1))p" "$VF_J/plan")
case "$code" in
  T) kill -TERM $$ ;;
  "") exit 0 ;;
  *) exit "$code" ;;
esac
"""
CODE_ENDS = ('0', '1', '3', 'T')


def job_code(_arg):
    """CheckoutTask (git clone, git checkout) and BuildTask (cmake configure, cmake --build with 0-3 targets) with a stand-in tool
    whose n-th invocation ends as planned: DONE iff every invocation made exited 0, nothing is invoked after the first failure, a
    tool that cannot be started gives FAILED, and the log holds what the invocations wrote, in order."""
    from valjean.cosette.code import CheckoutTask, BuildTask
    from valjean.cosette.depgraph import DepGraph
    from valjean.cosette.scheduler import Scheduler
    from valjean.cosette.backends.queue import QueueScheduling
    from valjean.config import Config
    rep = Report()
    signal.signal(signal.SIGALRM, _alarm)
    scratch = tempfile.mkdtemp(prefix='vf_c19c_')
    tool = os.path.join(scratch, 'tool')
    with open(tool, 'w', encoding='utf-8') as fil:
        fil.write(TOOL)
    os.chmod(tool, 0o755)
    old = (CheckoutTask.GIT, BuildTask.CMAKE, os.environ.get('VF_J'))
    cases = []
    for plan in itertools.chain.from_iterable(itertools.product(CODE_ENDS, repeat=n) for n in (1, 2)):
        cases.append(('checkout', None, plan, tool))
    cases.append(('checkout', None, ('0', '0'), os.path.join(scratch, 'no-such-git')))
    for targets in (None, ['a'], ['a', 'b'], ['a', 'b', 'c']):
        for plan in itertools.chain.from_iterable(itertools.product(CODE_ENDS, repeat=n) for n in (1, 2, 3, 4)):
            if len(plan) > 1 + max(1, len(targets or [])):
                continue
            cases.append(('build', targets, plan, tool))
        cases.append(('build', targets, ('0',), os.path.join(scratch, 'no-such-cmake')))
    try:
        for kind, targets, plan, exe in cases:
            root = tempfile.mkdtemp(prefix='code_', dir=scratch)
            jdir = os.path.join(root, 'journal-dir')
            os.makedirs(jdir)
            os.makedirs(os.path.join(root, 'src'))
            with open(os.path.join(jdir, 'plan'), 'w', encoding='ascii') as fil:
                fil.write('\n'.join(plan) + '\n')
            os.environ['VF_J'] = jdir
            CheckoutTask.GIT = BuildTask.CMAKE = exe
            if kind == 'checkout':
                task = CheckoutTask('code', repository=os.path.join(root, 'src'))
            else:
                task = BuildTask('code', os.path.join(root, 'src'), targets=targets)
            conf = Config()
            conf.set('path', 'output-root', os.path.join(root, 'out'))
            conf.set('path', 'log-root', os.path.join(root, 'log'))
            graph = DepGraph()
            graph.add_node(task)
            case = {'code task': kind, 'targets': targets, 'exit plan of the tool': plan, 'tool exists': exe == tool}
            tag = f'{kind}|targets={len(targets or [])}'
            signal.alarm(60)
            try:
                env = Scheduler(hard_graph=graph, backend=QueueScheduling(n_workers=1)).schedule(config=conf)
            except Watchdog:
                rep.violate(f'C19|code|hang|{tag}', 'schedule() did not come back within 60 s', case)
                continue
            except Exception as exc:  # pylint: disable=broad-except
                rep.violate(f'C19|code|run-aborted|{type(exc).__name__}|{tag}', f'schedule() raised {exc!r}', case)
                continue
            finally:
                signal.alarm(0)
            ent = env.get('code', {})
            status = getattr(ent.get('status'), 'name', repr(ent.get('status')))
            journal = []
            if os.path.isfile(os.path.join(jdir, 'journal')):
                with open(os.path.join(jdir, 'journal'), encoding='utf-8') as fil:
                    journal = fil.read().splitlines()
            ends = [(plan[i] if i < len(plan) else '0') for i in range(len(journal))]
            failed_at = next((i for i, end in enumerate(ends) if end != '0'), None)
            rep.case(nontrivial=(kind, tuple(targets or ()), plan, exe == tool) if (failed_at is not None or exe != tool) else None,
                     outcome=('code', kind, status, len(journal)))
            if exe != tool:
                if status != 'FAILED' or journal:
                    rep.violate(f'C19|code|missing-tool|{tag}', f'the tool does not exist: status {status}, invocations {journal}', case)
                continue
            if not journal:
                rep.violate(f'C19|code|nothing-run|{tag}', f'no invocation of the tool was made (status {status})', case)
                continue
            exp = 'DONE' if failed_at is None else 'FAILED'
            if status != exp:
                rep.violate(f'C19|code|status|{tag}|exp={exp}|got={status}',
                            f'{kind} targets={targets}: invocations ended {ends}, task is {status}', case)
            if failed_at is not None and len(journal) > failed_at + 1:
                rep.violate(f'C19|code|commands-run-after-failure|{tag}',
                            f'{kind} targets={targets}: invocation {failed_at} ended {ends[failed_at]!r} but {len(journal) - failed_at - 1} more '
                            f'were made: {journal[failed_at + 1:]}', case)
            if failed_at is None:
                # every requested target must have been asked for
                asked = ' '.join(journal)
                for tgt in targets or []:
                    if f'--target {tgt}' not in asked:
                        rep.violate(f'C19|code|target-not-built|{tag}', f'target {tgt!r} never requested: {journal}', case)
            log = ent.get('checkout_log' if kind == 'checkout' else 'build_log')
            if not log or not os.path.isfile(log):
                rep.violate(f'C19|code|capture-missing|{tag}', f'no log file ({log!r})', case)
            else:
                with open(log, encoding='utf-8') as fil:
                    lines = [ln for ln in fil.read().splitlines() if ln.startswith(('out', 'err'))]
                for stream in ('out', 'err'):
                    got = [ln for ln in lines if ln.startswith(stream)]
                    if got != [f'{stream}{i}' for i in range(len(journal))]:
                        rep.violate(f'C19|code|capture|{stream}|{tag}', f'log holds {got}, the invocations wrote '
                                    f'{[f"{stream}{i}" for i in range(len(journal))]}', case)
            shutil.rmtree(root, ignore_errors=True)
        rep.sample({'code task': 'build', 'targets': ['a', 'b'], 'exit plan of the tool': ('0', '3', '0')})
    finally:
        CheckoutTask.GIT, BuildTask.CMAKE = old[0], old[1]
        if old[2] is None:
            os.environ.pop('VF_J', None)
        else:
            os.environ['VF_J'] = old[2]
        shutil.rmtree(scratch, ignore_errors=True)
    return rep


def _call(job):
    return job[0](job[1])


TIER = ['quick']


def run(tier, seed):
    TIER[0] = tier
    jobs = [(job_lists, None)] + [(job_lists, k) for k in KINDS] + [(job_names, None), (job_code, None)]
    return pool.pmap(_call, jobs, seed)


def replay(case):
    from valjean.cosette.run import RunTask
    signal.signal(signal.SIGALRM, _alarm)
    scratch = tempfile.mkdtemp(prefix='vf_c19r_')
    try:
        if 'commands' in case:
            open(os.path.join(scratch, 'not-executable'), 'w').close()  # pylint: disable=consider-using-with
            kinds = tuple(case['commands'])
            clis = [command(k, pos, scratch) for pos, k in enumerate(kinds)]
            env = schedule([RunTask.from_clis('t', clis)], scratch)
            ent = env.get('t', {})
            exp = interpret(kinds, clis)
            status = getattr(ent.get('status'), 'name', None)
            return {'status': status, 'return_codes': ent.get('return_codes'), 'expected (status, codes)': exp[:2],
                    'violates': status != exp[0] or (exp[1] is not None and ent.get('return_codes') != exp[1])}
        return {'note': 're-run ./vf check C19', 'violates': False}
    finally:
        shutil.rmtree(scratch, ignore_errors=True)
