"""C16 — the dependency graph mirrors a plain node/edge set under any edit
history (DESIGN.md section 5, C16).

(a) explicit-state BFS over edit histories of the real DepGraph, reference =
    (ordered list of node ids, set of pairs) advanced in lock-step; derived
    graphs (copy / invert / + / merge) and aliasing checked in every state;
(b) every labelled DAG on <= N nodes in two insertion orders: topological
    sort, transitive reduction / closure, depends, recursive dependencies;
    every cyclic digraph on <= M nodes: topological_sort raises;
(c) nested graphs: flatten preserves the must-come-after relation between
    plain nodes (also through empty graphs).
"""
import itertools

from ..core.report import Report
from ..core import bfs
from ..core.pool import pmap

LEVEL = 'model_checking'
TECHNIQUE = ('explicit-state BFS over edit histories of the real DepGraph against a node/edge-set '
             'reference model + bounded exhaustive enumeration of all DAGs / cyclic digraphs / nested graphs')
RULE = ('(a) BFS from the empty graph over {add_node, remove_node, add_dependency, remove_dependency, merge-with-pool-graph, in-place '
        'transitive reduction / closure (on acyclic states)}, every public observer being called between the edits, '
        'x node alphabet; a state is the concrete layout (node order, index-keyed edge dict); every state is checked against the '
        'reference set model incl. copy/invert/+/<=/==/dict and aliasing; (b) all labelled DAGs and all cyclic digraphs up to the '
        'stated node count, two insertion orders, incl. reduction / closure in place on a graph that has been observed; (c) all outer graphs with nested graph nodes in the stated bounds. '
        'non-trivial = concrete layouts whose node order differs from insertion order of the surviving nodes (a), DAGs with >= 2 edges (b), '
        'nested cases with an edge into or out of a graph node (c)')
ASSUMPTIONS = ['nodes are identified by identity (RList key=id), as documented',
               'small-scope: <= 4 node alphabet, <= 5-node DAGs, nesting depth <= 2',
               'cyclic nested structures are not judged (the statement speaks of acyclic graphs for ordering clauses)']


class N:
    """A plain hashable node."""
    __slots__ = ('name',)

    def __init__(self, name):
        self.name = name

    def __repr__(self):
        return self.name


def _imports():
    from valjean.cosette.depgraph import DepGraph, DepGraphError
    return DepGraph, DepGraphError


# ---------------------------------------------------------------- (a) BFS
def pool_graphs(nodes, DepGraph):
    """Fixed pool of graphs (as edge specs over the alphabet) used for merge / + / <=."""
    a, b, c = nodes[0], nodes[1], nodes[2]
    specs = [
        ('P0', [], []),
        ('P1', [a], []),
        ('P2', [b, a], [(b, a)]),
        ('P3', [c, b, a], [(c, b), (b, a)]),
        ('P4', [a, c], [(a, c)]),
    ]
    out = []
    for name, nds, eds in specs:
        g = DepGraph()
        for n in nds:
            g.add_node(n)
        for x, y in eds:
            g.add_dependency(x, on=y)
        out.append((name, g, [n.name for n in nds], {(x.name, y.name) for x, y in eds}))
    return out


class Ref:
    """Reference model: list of node names (insertion order, irrelevant to the
    abstract graph) and a set of (node, on) pairs."""

    def __init__(self):
        self.nodes = []
        self.edges = set()

    def apply(self, oper, pool):
        kind = oper[0]
        if kind == 'add_node':
            if oper[1] not in self.nodes:
                self.nodes.append(oper[1])
            return None
        if kind == 'remove_node':
            if oper[1] in self.nodes:
                self.nodes.remove(oper[1])
                self.edges = {(x, y) for x, y in self.edges if oper[1] not in (x, y)}
            return None
        if kind == 'add_dep':
            for n in oper[1:3]:
                if n not in self.nodes:
                    self.nodes.append(n)
            self.edges.add((oper[1], oper[2]))
            return None
        if kind == 'remove_dep':
            if (oper[1], oper[2]) in self.edges:
                self.edges.discard((oper[1], oper[2]))
                return None
            return 'error'      # documented: KeyError (missing edge) / ValueError (missing node)
        if kind == 'merge':
            _, _, pnodes, pedges = pool[oper[1]]
            for n in pnodes:
                if n not in self.nodes:
                    self.nodes.append(n)
            self.edges |= pedges
            return None
        if kind in ('reduce', 'close'):          # in place; only enabled on acyclic graphs
            rch = self.reach()
            if kind == 'close':
                self.edges = rch
            else:
                self.edges = {(u, v) for u, v in self.edges if not any((u, w) in rch and (w, v) in rch for w in self.nodes)}
            return None
        raise AssertionError(oper)

    def reach(self):
        rch = set(self.edges)
        while True:
            more = {(u, y) for u, v in rch for x, y in rch if v == x} - rch
            if not more:
                return rch
            rch |= more

    def acyclic(self):
        return not any(u == v for u, v in self.reach())


def apply_real(graph, oper, byname, pool):
    kind = oper[0]
    try:
        if kind == 'add_node':
            graph.add_node(byname[oper[1]])
        elif kind == 'remove_node':
            graph.remove_node(byname[oper[1]])
        elif kind == 'add_dep':
            graph.add_dependency(byname[oper[1]], on=byname[oper[2]])
        elif kind == 'remove_dep':
            graph.remove_dependency(byname[oper[1]], on=byname[oper[2]])
        elif kind == 'merge':
            graph.merge(pool[oper[1]][1])
        elif kind == 'reduce':
            graph.transitive_reduction()
        elif kind == 'close':
            graph.transitive_closure()
        else:
            raise AssertionError(oper)
    except (KeyError, ValueError) as exc:
        return 'error:' + type(exc).__name__
    return None


def concrete(graph):
    """Concrete layout: node order + index-keyed edges (+ reverse index)."""
    # pylint: disable=protected-access
    names = tuple(n.name for n in graph._nodes)
    edges = tuple(sorted((k, tuple(sorted(v))) for k, v in graph._edges.items()))
    rindex = tuple(sorted(tuple(v) for v in graph._nodes._index.values()))
    return names, edges, rindex


def observe(graph, byname):
    """What the public API reports: nodes, deps, dependees per node."""
    nodes = [n.name for n in graph.nodes()]
    deps = {n.name: sorted(d.name for d in graph.dependencies(n)) for n in graph.nodes()}
    dees = {n.name: sorted(d.name for d in graph.dependees(n)) for n in graph.nodes()}
    return nodes, deps, dees


def compare(graph, ref_nodes, ref_edges, byname, tag):
    """Compare a real graph with a reference (nodes, edges); list problems."""
    probs = []
    try:
        nodes, deps, dees = observe(graph, byname)
    except Exception as exc:  # any exception while merely observing is a violation
        return [(f'C16|{tag}|observe-raises={type(exc).__name__}', f'{tag}: observing the graph raises {exc!r}')]
    if sorted(nodes) != sorted(ref_nodes) or len(graph) != len(ref_nodes):
        probs.append((f'C16|{tag}|nodes', f'{tag}: nodes {sorted(nodes)} != reference {sorted(ref_nodes)}'))
        return probs
    for n in ref_nodes:
        want = sorted(y for x, y in ref_edges if x == n)
        if deps[n] != want:
            probs.append((f'C16|{tag}|dependencies', f'{tag}: dependencies({n}) = {deps[n]} != {want}'))
        want = sorted(x for x, y in ref_edges if y == n)
        if dees[n] != want:
            probs.append((f'C16|{tag}|dependees', f'{tag}: dependees({n}) = {dees[n]} != {want}'))
    for name, node in byname.items():
        if (node in graph) != (name in ref_nodes):
            probs.append((f'C16|{tag}|contains', f'{tag}: ({name} in graph) = {node in graph}'))
    # reverse index of the node list
    for i, node in enumerate(graph.nodes()):
        if graph.nodes().index(node) != i:
            probs.append((f'C16|{tag}|rlist-index', f'{tag}: nodes().index({node}) = {graph.nodes().index(node)} != {i}'))
    try:
        dct = dict(graph)
        got = {k.name: sorted(v.name for v in vs) for k, vs in dct.items()}
        want = {n: sorted(y for x, y in ref_edges if x == n) for n in ref_nodes}
        if got != want:
            probs.append((f'C16|{tag}|dict', f'{tag}: dict(graph) = {got} != {want}'))
    except Exception as exc:
        probs.append((f'C16|{tag}|dict-raises={type(exc).__name__}', f'{tag}: dict(graph) raises {exc!r}'))
    return probs


def build_from_ref(ref_nodes, ref_edges, byname, DepGraph, reverse=False):
    g = DepGraph()
    order = list(reversed(ref_nodes)) if reverse else list(ref_nodes)
    for n in order:
        g.add_node(byname[n])
    for x, y in sorted(ref_edges, reverse=reverse):
        g.add_dependency(byname[x], on=byname[y])
    return g


def job_bfs(job):
    _, alphabet, depth, with_merge = job
    DepGraph, _ = _imports()
    rep = Report()
    names = list(alphabet)

    def fresh():
        byname = {n: N(n) for n in names}
        nodes = [byname[n] for n in names]
        while len(nodes) < 3:
            extra = N('z%d' % len(nodes))
            nodes.append(extra)
        pool = pool_graphs(nodes, DepGraph)
        return byname, pool

    opers = []
    for n in names:
        opers.append(('add_node', n))
        opers.append(('remove_node', n))
    for x in names:
        for y in names:
            opers.append(('add_dep', x, y))
            opers.append(('remove_dep', x, y))
    if with_merge:
        for i in range(5):
            opers.append(('merge', i))
    single_ops = [o for o in opers if o[0] != 'merge']

    def build(hist):
        byname, pool = fresh()
        for _, g, pn, _ in pool:
            for node in g.nodes():
                byname.setdefault(node.name, node)
        graph = DepGraph()
        ref = Ref()
        status = []
        for oper in hist:
            before = concrete(graph)
            r_real = apply_real(graph, oper, byname, pool)
            r_ref = ref.apply(oper, pool)
            status.append((oper, r_real, r_ref, before == concrete(graph)))
            # look at the graph between the edits, as a user would: anything an observer caches must follow the next edit
            try:
                observe(graph, byname)
                graph.initial()
                graph.terminal()
                graph.invert()
            except Exception:  # pylint: disable=broad-except
                pass            # reported by check() on the history that ends here
        return graph, ref, byname, pool, status

    def canon(obj):
        return concrete(obj[0])

    def check(hist, obj):
        graph, ref, byname, pool, status = obj
        probs = []
        if status:
            oper, r_real, r_ref, unchanged = status[-1]
            if (r_real is None) != (r_ref is None):
                probs.append((f'C16|edit|{oper[0]}-error-mismatch',
                              f'{oper}: implementation says {r_real}, reference says {r_ref}'))
            if r_ref == 'error' and not unchanged:
                probs.append((f'C16|edit|{oper[0]}-failed-but-changed', f'{oper} raised but modified the graph'))
        tag = 'edit:' + (hist[-1][0] if hist else 'empty')
        probs += compare(graph, ref.nodes, ref.edges, byname, tag)
        return probs

    def on_new(hist, obj):
        graph, ref, byname, pool, status = obj
        probs = []
        # non-trivial layouts: node order differs from the reference insertion order
        if [n.name for n in graph.nodes()] != ref.nodes:
            rep.nontrivial.add(concrete(graph))
        # derived graphs
        cpy = graph.copy()
        probs += compare(cpy, ref.nodes, ref.edges, byname, 'copy')
        inv = graph.invert()
        probs += compare(inv, ref.nodes, {(y, x) for x, y in ref.edges}, byname, 'invert')
        if not graph == cpy or not cpy == graph:
            probs.append(('C16|eq|copy-not-equal', 'graph != graph.copy()'))
        other = build_from_ref(ref.nodes, ref.edges, byname, DepGraph, reverse=True)
        if not graph == other:
            probs.append(('C16|eq|same-graph-other-order', 'graph != same abstract graph built in another order'))
        if not (graph <= other and other <= graph):
            probs.append(('C16|le|same-graph-other-order', 'graph <= same abstract graph is False'))
        for pname, pg, pnodes, pedges in pool:
            want_le = set(ref.nodes) <= set(pnodes) and ref.edges <= pedges
            if (graph <= pg) != want_le:
                probs.append(('C16|le|pool', f'(graph <= {pname}) = {graph <= pg}, reference {want_le}'))
            want_ge = set(pnodes) <= set(ref.nodes) and pedges <= ref.edges
            if (pg <= graph) != want_ge:
                probs.append(('C16|le|pool-rev', f'({pname} <= graph) = {pg <= graph}, reference {want_ge}'))
            want_eq = set(ref.nodes) == set(pnodes) and ref.edges == pedges
            if (graph == pg) != want_eq:
                probs.append(('C16|eq|pool', f'(graph == {pname}) = {graph == pg}, reference {want_eq}'))
            before_p = concrete(pg)
            summed = graph + pg
            snodes = ref.nodes + [n for n in pnodes if n not in ref.nodes]
            probs += compare(summed, snodes, ref.edges | pedges, byname, 'add')
            if concrete(pg) != before_p:
                probs.append(('C16|alias|add-modifies-right-operand', f'graph + {pname} modified {pname}'))
        # aliasing: mutate each derived graph by every single operation; original unchanged, and vice versa
        snap = concrete(graph)
        for dname, make in (('copy', lambda g: g.copy()), ('invert', lambda g: g.invert()),
                            ('add', lambda g: g + pool[2][1])):
            for oper in single_ops:
                derived = make(graph)
                apply_real(derived, oper, byname, pool)
                if dname in ('copy', 'invert'):
                    # differential oracle: the same operation on a graph with the same content built edit by edit must report
                    # the same nodes / dependencies / dependees (sets per node; derived graphs must not share internal state)
                    dedges = ref.edges if dname == 'copy' else {(y, x) for x, y in ref.edges}
                    twin = build_from_ref(ref.nodes, dedges, byname, DepGraph)
                    apply_real(twin, oper, byname, pool)
                    try:
                        o_der, o_twin = observe(derived, byname), observe(twin, byname)
                        same = (sorted(o_der[0]), o_der[1], o_der[2]) == (sorted(o_twin[0]), o_twin[1], o_twin[2])
                    except Exception as exc:  # pylint: disable=broad-except
                        same, o_der, o_twin = False, repr(exc), None
                    if not same:
                        probs.append((f'C16|derived-then-edit|{dname}|{oper[0]}',
                                      f'{oper} on graph.{dname}() reports {o_der}, the same edit on the same graph built edit by edit reports {o_twin}'))
                        return probs
                if concrete(graph) != snap:
                    probs.append((f'C16|alias|{dname}-shares-state',
                                  f'{oper} on graph.{dname}() modified the original'))
                    return probs
                rep.counters['alias_checks'] += 1
        for oper in single_ops:
            byname2, pool2 = None, None
            g2, ref2, byname2, pool2, _ = build(hist)
            derived = g2.copy()
            dsnap = concrete(derived)
            apply_real(g2, oper, byname2, pool2)
            if concrete(derived) != dsnap:
                probs.append(('C16|alias|copy-follows-original', f'{oper} on the original modified an earlier copy'))
                break
        return probs

    def ops_of(hist, obj):
        # in-place reduction / closure are defined on acyclic graphs; with at least one edge they can change something
        if obj[1].edges and obj[1].acyclic():
            return opers + [('reduce',), ('close',)]
        return opers

    seen = bfs.search(build, ops_of, canon, check, depth, rep, label='edit', on_new=on_new)
    rep.extra['bfs_depth'] = depth
    rep.extra['bfs_alphabet'] = ''.join(names)
    rep.extra['bfs_concrete_states'] = len(seen)
    abstract = set()
    for k, hist in seen.items():
        names_, edges_ = k[:2]
        abstract.add((frozenset(names_), frozenset((names_[i], names_[j]) for i, js in edges_ for j in js)))
    rep.extra['bfs_abstract_states'] = len(abstract)
    some = sorted(seen.values(), key=len)
    for hist in (some[len(some) // 2], some[-1]):
        rep.sample({'edit_history': [list(o) for o in hist]})
    return rep


# ---------------------------------------------------------------- (b) DAGs
def digraphs(n, loops=False):
    """All digraphs on n labelled nodes as lists of (i, j) pairs."""
    pairs = [(i, j) for i in range(n) for j in range(n) if loops or i != j]
    for mask in range(1 << len(pairs)):
        yield [p for k, p in enumerate(pairs) if mask >> k & 1]


def reach(n, edges):
    """Reachability (paths of length >= 1) as a set of pairs."""
    adj = {i: {j for x, j in edges if x == i} for i in range(n)}
    out = set()
    for s in range(n):
        stack, seen = list(adj[s]), set()
        while stack:
            v = stack.pop()
            if v in seen:
                continue
            seen.add(v)
            stack.extend(adj[v])
        out |= {(s, v) for v in seen}
    return out


def is_acyclic(n, edges):
    return all((i, i) not in r for r in [reach(n, edges)] for i in range(n))


def dags_by_order(n):
    """All labelled DAGs on n nodes: for an acyclic graph the edge set is a
    subset of the pairs compatible with some permutation; enumerate by mask
    and filter (cheap for n <= 4); for n = 5 use the incremental construction."""
    if n <= 4:
        for edges in digraphs(n):
            if is_acyclic(n, edges):
                yield edges
        return
    # incremental: a DAG on n nodes = choose the set S of sinks-free... use simple filter with bit tricks
    pairs = [(i, j) for i in range(n) for j in range(n) if i != j]
    npairs = len(pairs)
    adjmask_of_pair = [(i, 1 << j) for i, j in pairs]
    for mask in range(1 << npairs):
        adj = [0] * n
        m, k = mask, 0
        while m:
            if m & 1:
                i, bit = adjmask_of_pair[k]
                adj[i] |= bit
            m >>= 1
            k += 1
        # Kahn with bitmasks
        alive = (1 << n) - 1
        changed = True
        while changed and alive:
            changed = False
            for v in range(n):
                if alive >> v & 1 and not adj[v] & alive:
                    alive &= ~(1 << v)
                    changed = True
        if not alive:
            yield [p for kk, p in enumerate(pairs) if mask >> kk & 1]


def check_dag(rep, n, edges, order, DepGraph):
    nodes = [N('n%d' % i) for i in range(n)]
    g = DepGraph()
    for i in order:
        g.add_node(nodes[i])
    eds = sorted(edges, reverse=(order[0] != 0))
    for i, j in eds:
        g.add_dependency(nodes[i], on=nodes[j])
    case = {'n': n, 'edges': edges, 'order': list(order)}
    rch = reach(n, edges)
    eset = set(edges)
    pos_of = {}
    try:
        topo = g.topological_sort()
    except Exception as exc:
        rep.violate(f'C16|topo|raises={type(exc).__name__}', f'topological_sort of a DAG raises {exc!r}', case, n)
        return
    names = [t.name for t in topo]
    if sorted(names) != sorted(x.name for x in nodes):
        rep.violate('C16|topo|not-a-permutation', f'topological_sort lists {names}', case, n)
    else:
        pos_of = {t.name: k for k, t in enumerate(topo)}
        for i, j in edges:
            if pos_of['n%d' % i] < pos_of['n%d' % j]:
                rep.violate('C16|topo|dependency-after-dependent', f'n{i} listed before its dependency n{j}: {names}', case, n)
                break
    for i in range(n):
        for j in range(n):
            if g.depends(nodes[i], nodes[j]) != ((i, j) in eset):
                rep.violate('C16|depends|direct', f'depends(n{i}, n{j}) = {g.depends(nodes[i], nodes[j])}', case, n)
            if g.depends(nodes[i], nodes[j], recurse=True) != ((i, j) in rch):
                rep.violate('C16|depends|recurse', f'depends(n{i}, n{j}, recurse=True) != reachability {(i, j) in rch}', case, n)
        got = sorted(d.name for d in g.dependencies(nodes[i], recurse=True))
        want = sorted('n%d' % j for x, j in rch if x == i)
        if got != want:
            rep.violate('C16|dependencies|recurse', f'dependencies(n{i}, recurse=True) = {got} != {want}', case, n)
    init = sorted(x.name for x in g.initial())
    want = sorted('n%d' % i for i in range(n) if not any(j == i for _, j in edges))
    if init != want:
        rep.violate('C16|initial', f'initial() = {init} != {want}', case, n)
    term = sorted(x.name for x in g.terminal())
    want = sorted('n%d' % i for i in range(n) if not any(x == i for x, _ in edges))
    if term != want:
        rep.violate('C16|terminal', f'terminal() = {term} != {want}', case, n)
    # reduction / closure (in place, on copies)
    red = g.copy().transitive_reduction()
    got = {(int(k.name[1:]), int(v.name[1:])) for k, vs in red for v in vs}
    # unique minimal edge set of a DAG: keep (u,v) iff no path u -> w -> ... -> v of length >= 2
    want = {(u, v) for u, v in eset if not any((u, w) in rch and (w, v) in rch for w in range(n))}
    want_red = want
    if got != want:
        rep.violate('C16|reduction', f'transitive_reduction edges {sorted(got)} != minimal {sorted(want)}', case, n)
    clo = g.copy().transitive_closure()
    got = {(int(k.name[1:]), int(v.name[1:])) for k, vs in clo for v in vs}
    if got != rch:
        rep.violate('C16|closure', f'transitive_closure edges {sorted(got)} != reachability {sorted(rch)}', case, n)
    if len(red) != n or len(clo) != n:
        rep.violate('C16|reduction|nodes', 'reduction/closure changed the node set', case, n)
    if concrete_plain(g) != concrete_plain(build_same(n, order, eds, nodes, DepGraph)):
        rep.violate('C16|alias|reduction-modifies-original', 'reduction/closure of a copy modified the original', case, n)
    # the same two operations IN PLACE on a graph that has been looked at before (dependees / initial / invert), then every
    # public observer again: a graph edited by reduction or closure is still the graph it reports
    byname = {x.name: x for x in nodes}
    names_ref = ['n%d' % i for i in range(n)]
    for what, wanted in (('reduction', want_red), ('closure', rch)):
        live = build_same(n, order, eds, nodes, DepGraph)
        observe(live, byname)
        live.initial()
        live.invert()
        if what == 'reduction':
            live.transitive_reduction()
        else:
            live.transitive_closure()
        ref_edges = {('n%d' % u, 'n%d' % v) for u, v in wanted}
        for key, text in compare(live, names_ref, ref_edges, byname, f'in-place-{what}'):
            rep.violate(key, text, case, n)
        inv = live.invert()
        got_inv = {(k.name, v.name) for k, vs in inv for v in vs}
        if got_inv != {(y, x) for x, y in ref_edges}:
            rep.violate(f'C16|in-place-{what}|invert', f'invert() after an in-place {what}: {sorted(got_inv)} != {sorted((y, x) for x, y in ref_edges)}',
                        case, n)
        init = sorted(x.name for x in live.initial())
        wanti = sorted(nm for nm in names_ref if not any(y == nm for _, y in ref_edges))
        if init != wanti:
            rep.violate(f'C16|in-place-{what}|initial', f'initial() after an in-place {what}: {init} != {wanti}', case, n)
    rep.case(nontrivial=True if len(edges) >= 2 else None, outcome='dag-ok')


def concrete_plain(graph):
    # pylint: disable=protected-access
    return tuple(n.name for n in graph._nodes), tuple(sorted((k, tuple(sorted(v))) for k, v in graph._edges.items()))


def build_same(n, order, eds, nodes, DepGraph):
    g = DepGraph()
    for i in order:
        g.add_node(nodes[i])
    for i, j in eds:
        g.add_dependency(nodes[i], on=nodes[j])
    return g


def job_dags(job):
    _, n, part, parts = job
    DepGraph, DepGraphError = _imports()
    rep = Report()
    count = 0
    for idx, edges in enumerate(dags_by_order(n) if n <= 4 else dags5_part(part, parts)):
        if n <= 4 and idx % parts != part:
            continue
        count += 1
        check_dag(rep, n, edges, tuple(range(n)), DepGraph)
        check_dag(rep, n, edges, tuple(reversed(range(n))), DepGraph)
        if count == 7:
            rep.sample({'dag_nodes': n, 'edges(node,on)': edges})
    rep.counters[f'dags_n{n}'] += count
    return rep


def dags5_small(part, parts, max_edges=5):
    """Labelled DAGs on 5 nodes with at most `max_edges` edges (the quick tier's share of the 5-node graphs: long alternative
    paths - a -> j -> x -> k beside a -> k - need 5 nodes)."""
    n = 5
    pairs = [(i, j) for i in range(n) for j in range(n) if i != j]
    idx = 0
    for nedges in range(max_edges + 1):
        for edges in itertools.combinations(pairs, nedges):
            idx += 1
            if idx % parts != part:
                continue
            rch = reach(n, edges)
            if any((v, v) in rch for v in range(n)):
                continue
            yield list(edges)


def job_dags5_small(job):
    _, part, parts = job
    DepGraph, _ = _imports()
    rep = Report()
    count = 0
    for edges in dags5_small(part, parts):
        count += 1
        check_dag(rep, 5, edges, tuple(range(5)), DepGraph)
        if count == 7:
            rep.sample({'dag_nodes': 5, 'edges(node,on)': edges})
    rep.counters['dags_n5_at_most_5_edges'] += count
    return rep


def dags5_part(part, parts):
    """Labelled DAGs on 5 nodes whose enumeration mask is in this part."""
    n = 5
    pairs = [(i, j) for i in range(n) for j in range(n) if i != j]
    npairs = len(pairs)
    total = 1 << npairs
    lo, hi = total * part // parts, total * (part + 1) // parts
    adjbit = [(i, 1 << j) for i, j in pairs]
    for mask in range(lo, hi):
        adj = [0, 0, 0, 0, 0]
        m, k = mask, 0
        while m:
            if m & 1:
                i, bit = adjbit[k]
                adj[i] |= bit
            m >>= 1
            k += 1
        alive = 31
        changed = True
        while changed and alive:
            changed = False
            for v in range(5):
                if alive >> v & 1 and not adj[v] & alive:
                    alive &= ~(1 << v)
                    changed = True
        if not alive:
            yield [p for kk, p in enumerate(pairs) if mask >> kk & 1]


def job_cyclic(job):
    _, n = job
    DepGraph, DepGraphError = _imports()
    rep = Report()
    count = 0
    for edges in digraphs(n, loops=True):
        if is_acyclic(n, edges):
            continue
        count += 1
        for order in (tuple(range(n)), tuple(reversed(range(n)))):
            nodes = [N('n%d' % i) for i in range(n)]
            g = DepGraph()
            for i in order:
                g.add_node(nodes[i])
            for i, j in edges:
                g.add_dependency(nodes[i], on=nodes[j])
            case = {'n': n, 'edges': edges, 'order': list(order)}
            try:
                res = g.topological_sort()
                rep.violate('C16|topo|cycle-not-detected', f'topological_sort of a cyclic graph returned {res}', case, n)
            except DepGraphError:
                pass
            except Exception as exc:
                rep.violate(f'C16|topo|cycle-raises={type(exc).__name__}',
                            f'topological_sort of a cyclic graph raises {exc!r} instead of DepGraphError', case, n)
            rep.case(nontrivial=True, outcome='cycle-raises')
        if count == 5:
            rep.sample({'cyclic_nodes': n, 'edges(node,on)': edges})
    rep.counters[f'cyclic_n{n}'] += count
    return rep


# ---------------------------------------------------------------- (c) nested
def nested_specs(deep):
    """Outer graphs with <= 3 nodes of which <= 2 are graph nodes of 0-2 plain
    nodes (one more nesting level when deep).  A spec is a tree:
    ('G', [members], [(i, j) edges between member indices])  /  ('P', name)."""
    inner_shapes = [
        ('G', [], []),
        ('G', [('P', 'x')], []),
        ('G', [('P', 'x'), ('P', 'y')], []),
        ('G', [('P', 'x'), ('P', 'y')], [(0, 1)]),
    ]
    if deep:
        inner_shapes += [
            ('G', [('G', [], [])], []),
            ('G', [('G', [('P', 'x')], []), ('P', 'y')], [(1, 0)]),
            ('G', [('G', [('P', 'x')], []), ('P', 'y')], [(0, 1)]),
            ('G', [('G', [], []), ('P', 'y')], [(1, 0)]),
            ('G', [('P', 'x'), ('P', 'y'), ('P', 'w')], [(0, 1), (1, 2)]),
        ]
    for nouter in (1, 2, 3):
        slots = list(range(nouter))
        for ngraphs in (1, 2):
            if ngraphs > nouter:
                continue
            for gpos in itertools.combinations(slots, ngraphs):
                for shapes in itertools.product(range(len(inner_shapes)), repeat=ngraphs):
                    pairs = [(i, j) for i in slots for j in slots if i != j]
                    for mask in range(1 << len(pairs)):
                        edges = [p for k, p in enumerate(pairs) if mask >> k & 1]
                        if not is_acyclic(nouter, edges):
                            continue
                        members = []
                        for s in slots:
                            if s in gpos:
                                shape = inner_shapes[shapes[gpos.index(s)]]
                                members.append(rename(shape, 'g%d' % s))
                            else:
                                members.append(('P', 'p%d' % s))
                        yield ('G', members, edges)


def rename(shape, prefix):
    kind = shape[0]
    if kind == 'P':
        return ('P', prefix + shape[1])
    return ('G', [rename(m, prefix + str(i)) for i, m in enumerate(shape[1])], shape[2])


def realise(spec, DepGraph, plain, after, counter):
    """Build the real nested graph and the reference 'after' digraph.
    Returns (object, start_token, end_token)."""
    if spec[0] == 'P':
        node = N(spec[1])
        plain[spec[1]] = node
        return node, spec[1], spec[1]
    g = DepGraph()
    counter[0] += 1
    gid = 'G%d' % counter[0]
    s_tok, e_tok = gid + '.s', gid + '.e'
    after.add((e_tok, s_tok))
    built = []
    for m in spec[1]:
        obj, ms, me = realise(m, DepGraph, plain, after, counter)
        g.add_node(obj)
        after.add((ms, s_tok))
        after.add((e_tok, me))
        built.append((obj, ms, me))
    for i, j in spec[2]:
        g.add_dependency(built[i][0], on=built[j][0])
        after.add((built[i][1], built[j][2]))     # start(i) after end(j)
    return g, s_tok, e_tok


def closure(pairs):
    adj = {}
    for x, y in pairs:
        adj.setdefault(x, set()).add(y)
    out = set()
    for s in list(adj):
        stack, seen = list(adj[s]), set()
        while stack:
            v = stack.pop()
            if v in seen:
                continue
            seen.add(v)
            stack.extend(adj.get(v, ()))
        out |= {(s, v) for v in seen}
    return out


def check_nested(rep, spec, DepGraph, recurse=True):
    plain, after, counter = {}, set(), [0]
    top, _, _ = realise(spec, DepGraph, plain, after, counter)
    want = {(x, y) for x, y in closure(after) if x in plain and y in plain and x != y}
    case = {'nested_spec': spec}
    touches_graph = any(spec[1][i][0] == 'G' or spec[1][j][0] == 'G' for i, j in spec[2])
    try:
        flat = top.flatten()
    except Exception as exc:
        rep.violate(f'C16|flatten|raises={type(exc).__name__}', f'flatten raises {exc!r}', case, len(plain))
        return
    names = sorted(getattr(n, 'name', '<graph>') for n in flat.nodes())
    if names != sorted(plain):
        rep.violate('C16|flatten|nodes', f'flattened graph has nodes {names}, plain nodes are {sorted(plain)}', case, len(plain))
        return
    got = set()
    for x, nx in plain.items():
        for y, ny in plain.items():
            if x != y and flat.depends(nx, ny, recurse=True):
                got.add((x, y))
    if got != want:
        missing, extra = sorted(want - got), sorted(got - want)
        empty = _has_empty(spec)
        rep.violate('C16|flatten|order-lost' + ('|through-empty-graph' if empty and missing and not extra else ''),
                    f'after flatten: ordering constraints missing {missing}, spurious {extra}', case, len(plain) + 10 * len(spec[1]))
    rep.case(nontrivial=True if touches_graph else None, outcome='nested-ok' if got == want else 'nested-bad')


def _has_empty(spec):
    if spec[0] == 'P':
        return False
    if not spec[1]:
        return True
    return any(_has_empty(m) for m in spec[1])


def job_nested(job):
    _, deep, part, parts = job
    DepGraph, _ = _imports()
    rep = Report()
    for idx, spec in enumerate(nested_specs(deep)):
        if idx % parts != part:
            continue
        check_nested(rep, spec, DepGraph)
        if idx == 40 + part:
            rep.sample({'nested_spec': spec})
    return rep


# ---------------------------------------------------------------- driver
def job(j):
    return {'bfs': job_bfs, 'dags': job_dags, 'cyclic': job_cyclic, 'nested': job_nested, 'dags5small': job_dags5_small}[j[0]](j)


def run(tier, seed):
    jobs = []
    if tier == 'quick':
        jobs.append(('bfs', 'abc', 4, True))
        jobs.append(('bfs', 'ab', 6, False))
        for n in (1, 2, 3):
            jobs.append(('dags', n, 0, 1))
        for part in range(4):
            jobs.append(('dags', 4, part, 4))
        jobs += [('cyclic', 1), ('cyclic', 2), ('cyclic', 3)]
        for part in range(16):
            jobs.append(('dags5small', part, 16))
        for part in range(6):
            jobs.append(('nested', False, part, 6))
    else:
        jobs.append(('bfs', 'abc', 5, True))
        jobs.append(('bfs', 'abc', 6, False))
        jobs.append(('bfs', 'abcd', 4, False))
        for n in (1, 2, 3):
            jobs.append(('dags', n, 0, 1))
        for part in range(4):
            jobs.append(('dags', 4, part, 4))
        for part in range(64):
            jobs.append(('dags', 5, part, 64))
        jobs += [('cyclic', 1), ('cyclic', 2), ('cyclic', 3), ('cyclic', 4)]
        for part in range(16):
            jobs.append(('nested', True, part, 16))
    return pmap(job, jobs, seed)


def replay(case):
    DepGraph, DepGraphError = _imports()
    rep = Report()
    if 'history' in case:
        hist = tuple(tuple(o) for o in case['history'])
        alphabet = sorted({x for o in hist for x in o[1:] if isinstance(x, str)} | {'a', 'b', 'c'})
        # re-run the BFS restricted to exactly this history
        byname = {n: N(n) for n in alphabet}
        nodes = [byname[n] for n in alphabet]
        pool = pool_graphs(nodes, DepGraph)
        graph, ref = DepGraph(), Ref()
        steps = []
        for oper in hist:
            r = apply_real(graph, oper, byname, pool)
            rr = ref.apply(oper, pool)
            steps.append({'op': list(oper), 'impl': r, 'ref': rr})
        probs = compare(graph, ref.nodes, ref.edges, byname, 'replay')
        probs += compare(graph.copy(), ref.nodes, ref.edges, byname, 'copy')
        probs += compare(graph.invert(), ref.nodes, {(y, x) for x, y in ref.edges}, byname, 'invert')
        return {'steps': steps, 'layout': concrete(graph), 'reference': [ref.nodes, sorted(ref.edges)],
                'problems': probs, 'violates': bool(probs)}
    if 'nested_spec' in case:
        def tup(s):
            return ('P', s[1]) if s[0] == 'P' else ('G', [tup(m) for m in s[1]], [tuple(e) for e in s[2]])
        check_nested(rep, tup(case['nested_spec']), DepGraph)
    elif 'edges' in case:
        edges = [tuple(e) for e in case['edges']]
        if is_acyclic(case['n'], edges):
            check_dag(rep, case['n'], edges, tuple(case['order']), DepGraph)
        else:
            sub = job_cyclic(('cyclic', case['n']))
            rep.merge(sub)
    return {'problems': {k: v[0] for k, v in rep.violations.items()}, 'violates': bool(rep.violations)}
