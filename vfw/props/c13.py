"""C13 - looking at a test result never changes its verdict or its inputs."""
import copy
import pickle

from ..core.report import Report
from ..core import pool, bfs
from ..core.snap import deepsnap, diff
from . import results_kit as kit

LEVEL = 'model_checking'
ENGINE = 'E-hist'
DESIGN_REF = '5/C13'
TECHNIQUE = ('explicit-state BFS over sequences of read-only operations on real test results: a state is the deep snapshot of the public '
             'object graph of the result (attribute dictionaries, mapping key sets incl. default dictionaries, arrays as bytes; private '
             'cache attributes excluded) together with what its accessors answer (verdict, oracles, counts); any state other than '
             'the initial one is a violation; plus every ordered pair of operations and repeated evaluation')
RULE = ('[also: a failed result holding an exception object; 2-d datasets with string bins; evaluate() leaves the test equal to a never-evaluated twin] ' +
        'for each result kind (equal, approx-equal, Student, Bonferroni, Holm-Bonferroni over Student, metadata, statistics of tasks / '
        'tests / tests by labels, failed evaluation) in a passing and a failing instance, on scalar / 1-d / 2-d datasets (special values inf / NaN / zero errors; arrays also stored '
        'big-endian, Fortran-ordered, strided and as float32): BFS from the '
        'freshly evaluated result over the operations {bool, oracles, counts (nb_rejected, per_key, nb_missing_labels, ...), '
        'representation by TableRepresenter / FullTableRepresenter / PlotRepresenter / FullRepresenter at each of the 6 verbosities, '
        'Rst.format_result at each verbosity, fingerprint(test), copy.deepcopy, pickle round trip}; the deep snapshot and the verdict must '
        'stay equal to the initial ones after every step (so the state graph has exactly one state per result); additionally every '
        'ordered pair (op1, op2) is applied to a fresh result; evaluate() twice gives equal snapshots and leaves the test and its datasets equal to a never-evaluated twin; non-trivial = every (result, '
        'operation sequence) whose operation renders or serialises the result')
ASSUMPTIONS = ['the snapshot sees everything reachable through __dict__ / __slots__, mapping items and array bytes; state hidden in C extensions or module globals is only seen through the pair exploration',
               'plot representation = construction of the plot templates and of the MplPlot wrapper (pixels are not rendered)']
LEVEL_TEXT = ('For every result kind in a passing and a failing instance the state graph under all read-only operations (verdict, oracles, '
              'counts, every representer at every verbosity, rst formatting, fingerprint, deep copy, pickling) is explored breadth-first '
              'with the deep object-graph snapshot as state: the graph must consist of the initial state only; all ordered operation pairs '
              'are applied as well and evaluation is repeated to check determinism.')
LEVEL_NOTE = 'deep snapshot as defined in vfw/core/snap.py.'


def strip_private(snap):
    """Drop attributes whose name starts with an underscore (lazily filled caches are not 'recorded statistics'); whether a
    cache is consistent is observed through the outputs below."""
    if isinstance(snap, tuple):
        if len(snap) == 3 and snap[0] == 'obj':
            return ('obj', snap[1], tuple((k, strip_private(v)) for k, v in snap[2] if not (isinstance(k, str) and k.startswith('_'))))
        return tuple(strip_private(x) for x in snap)
    return snap


def state_of(res):
    """State of a result = its public object graph + what its accessors answer."""
    outs = [('bool', bool(res))]
    if hasattr(res, 'oracles'):
        outs.append(('oracles', deepsnap(res.oracles())))
    for name in ('nb_rejected', 'per_key', 'nb_missing_labels', 'test_pvalue'):
        if hasattr(res, name):
            val = getattr(res, name)
            try:
                outs.append((name, deepsnap(val() if callable(val) else val)))
            except Exception as exc:  # pylint: disable=broad-except
                outs.append((name, 'raises ' + type(exc).__name__))
    return (strip_private(deepsnap(res)), tuple(outs))


def instances(tier):
    out = []
    shapes = [((3,), ((False, False, False),), ((False, True, False),)),
              ((), ((False,),), ((True,),)),
              ((2, 2), ((False,) * 4, (False,) * 4), ((False, True, False, False), (False,) * 4))]
    # two compared datasets where the first passes everywhere and only the second fails
    shapes.append(((3,), ((False,) * 3, (False,) * 3), ((False,) * 3, (False, True, False))))
    # special values: a bin with zero errors on both sides and different values (t = -inf), an infinite and a NaN value
    shapes.append(((4,), ((False, 'zeroerr', False, False),), ((False, 'inf', 'nan', True),)))
    # a reference without errors (deterministic calculation) and an empty bin (0 error, same value) on the compared side
    shapes.append(((3,), ((False, 'exactref', False),), ((True, 'exactref', 'exactref'),)))
    if tier == 'thorough':
        shapes.append(((1, 3, 1), ((False,) * 3,), ((True, False, True),)))
        shapes.append(((2, 2), ((False, 'zeroerr', False, False), (False,) * 4), (('nan', False, 'inf', False), (True,) * 4)))
    for kind in kit.DATASET_KINDS:
        for shape, good, bad in shapes:
            out.append((kind, shape, good, None))
            out.append((kind, shape, bad, None))
    # the same numbers in other memory representations: looking at a result must not depend on how its arrays are stored
    for kind in kit.DATASET_KINDS:
        for storage in kit.STORAGES[1:]:
            if tier == 'quick' and storage in ('fortran', 'float32', 'string-bins') and kind not in ('equal', 'student', 'approx'):
                continue
            two_d = storage in ('fortran', 'string-bins')
            shape = {'fortran': (2, 2), 'string-bins': (3, 2)}.get(storage, (3,))
            ncell = int(shape[0] * (shape[1] if two_d else 1))
            out.append((kind, shape, (tuple(i == 1 for i in range(ncell)),), None, storage))
            if storage == 'string-bins':
                out.append((kind, shape, (tuple(False for _ in range(ncell)),), None, storage))
    out += [('metadata', None, None, (True, True)), ('metadata', None, None, (True, False)),
            ('stats_tasks', None, None, ('DONE', 'DONE')), ('stats_tasks', None, None, ('DONE', 'FAILED', 'SKIPPED')),
            ('stats_tests', None, None, ((True,), (True, True))), ('stats_tests', None, None, ((True,), (False,), None)),
            ('stats_labels', None, None, ((True, 'd1'), (True, 'd2'))), ('stats_labels', None, None, ((True, 'd1'), (False, 'd1'), (True, None))),
            ('failed', None, None, None), ('failed_exc', None, None, None)]
    return out


def make(inst):
    kind, shape, patterns, extra = inst[:4]
    if kind in kit.DATASET_KINDS:
        return kit.build(kind, shape=shape, patterns=patterns, storage=inst[4] if len(inst) > 4 else None)
    return kit.build(kind, extra=extra)


def make_unevaluated(inst):
    """The test object as built, never evaluated (dataset kinds only: the others have no datasets to protect)."""
    kind, shape, patterns = inst[:3]
    if kind not in kit.DATASET_KINDS:
        return None
    return kit.build(kind, shape=shape, patterns=patterns, storage=inst[4] if len(inst) > 4 else None, evaluate=False)[0]


def operations():
    from valjean.javert.verbosity import Verbosity
    ops = ['bool', 'oracles', 'counts', 'fingerprint', 'deepcopy', 'pickle']
    for verb in Verbosity:
        for rep in ('table', 'fulltable', 'plot', 'full'):
            ops.append(f'repr:{rep}:{verb.name}')
        ops.append(f'rst:{verb.name}')
    return ops


def apply_op(oper, result):
    from valjean.javert.verbosity import Verbosity
    from valjean.javert import representation as rpr
    from valjean.javert.rst import Rst
    from valjean.fingerprint import fingerprint
    if oper == 'bool':
        return bool(result)
    if oper == 'oracles':
        return result.oracles() if hasattr(result, 'oracles') else None
    if oper == 'counts':
        out = []
        for name in ('nb_rejected', 'rejected_proportion', 'per_key', 'only_failed_comparisons', 'nb_missing_labels',
                     'chi2_per_ndf', 'sort_ordering', 'test_pvalue'):
            if hasattr(result, name):
                val = getattr(result, name)
                out.append(val() if callable(val) else val)
        if hasattr(result, 'classify') and isinstance(result.classify, dict) and result.classify:
            from valjean.gavroche.diagnostics.stats import classification_counts, TestOutcome
            from valjean.cosette.task import TaskStatus
            first = TaskStatus.DONE if isinstance(next(iter(result.classify)), TaskStatus) else TestOutcome.SUCCESS
            out.append(classification_counts(result.classify, first))
        return out
    if oper == 'fingerprint':
        return fingerprint(result.test)
    if oper == 'deepcopy':
        return copy.deepcopy(result)
    if oper == 'pickle':
        return pickle.loads(pickle.dumps(result))
    what, rest = oper.split(':', 1)
    if what == 'repr':
        rep, verb = rest.split(':')
        cls = {'table': rpr.TableRepresenter, 'fulltable': rpr.FullTableRepresenter, 'plot': rpr.PlotRepresenter,
               'full': rpr.FullRepresenter}[rep]
        return rpr.Representation(cls(), verbosity=Verbosity[verb])(result)
    if what == 'rst':
        return Rst(rpr.Representation(rpr.FullRepresenter(), verbosity=Verbosity[rest])).format_result(result)
    raise ValueError(oper)


def job(inst):
    rep = Report()
    ops = operations()
    _, res0 = make(inst)
    init = state_of(res0)
    verdict0 = bool(make(inst)[1])
    # determinism of evaluate()
    test, _ = make(inst)
    if not inst[0].startswith('failed'):
        fresh = strip_private(deepsnap(make_unevaluated(inst)))
        one = state_of(test.evaluate())
        after = strip_private(deepsnap(test))
        two = state_of(test.evaluate())
        rep.evaluations += 1
        if one != two:
            rep.violate(f'C13|evaluate-not-repeatable|{inst[0]}', f'two evaluations differ: {diff(one, two)}', {'instance': inst})
        if fresh is not None and after != fresh:
            rep.violate(f'C13|evaluate-changes-inputs|{inst[0]}', f'the test and its datasets differ after evaluate(): {diff(after, fresh)}',
                        {'instance': inst})
    tag = f'{inst[0]}|verdict={verdict0}' + (f'|{inst[4]}' if len(inst) > 4 else '')

    def run_seq(hist):
        _, res = make(inst)
        err = None
        for oper in hist:
            try:
                apply_op(oper, res)
            except Exception as exc:  # pylint: disable=broad-except
                err = (oper, exc)          # a representation that raises is C12's business; here only state matters
                break
        return res, err

    def check(hist, obj):
        res, err = obj
        if not hist:
            return []
        out = []
        snap = state_of(res)
        oper = hist[-1] if err is None else err[0]
        okind = oper.split(':')[0] + (':' + oper.split(':')[1] if oper.startswith('repr') else '')
        if snap != init:
            out.append((f'C13|state-changed|{inst[0]}|{okind}', f'after {list(hist)}: {diff(snap, init)}'))
        try:
            if bool(res) != verdict0:
                out.append((f'C13|verdict-changed|{inst[0]}|{okind}', f'verdict {verdict0} becomes {bool(res)} after {list(hist)}'))
        except Exception as exc:  # pylint: disable=broad-except
            out.append((f'C13|verdict-raises|{inst[0]}|{okind}', f'bool(result) raises {exc!r} after {list(hist)}'))
        if err is not None:
            rep.counters[f'operation_raised:{inst[0]}:{okind}:{type(err[1]).__name__}'] += 1
        return out

    depth = 3
    bfs.search(run_seq, lambda h, o: ops if o[1] is None else [], lambda o: (state_of(o[0]), repr(o[1])[:80]), check, depth, rep,
               label=tag, prune_violating=True)
    rep.nontrivial_count += rep.transitions
    for val in rep.violations.values():
        val[1]['instance'] = [list(x) if isinstance(x, tuple) else x for x in inst]
    # every ordered pair on a fresh result (an operation may misbehave only after another one, without a visible state change)
    for op1 in ops:
        for op2 in ops:
            obj = run_seq((op1, op2))
            rep.evaluations += 1
            for key, what in check((op1, op2), obj):
                rep.violate(key, what, {'instance': inst, 'history': [op1, op2]}, size=2)
    rep.outcomes[(inst[0], verdict0)] += 1
    rep.sample({'instance': inst, 'operations': ['repr:full:FULL_DETAILS', 'bool']})
    return rep


def run(tier, seed):
    rep = pool.pmap(job, instances(tier), seed)
    rep.extra['operations'] = operations()
    return rep


def replay(case):
    inst = tuple(tuple(x) if isinstance(x, list) else x for x in case['instance']) if 'instance' in case else None
    if inst is None:
        return {'note': 're-run ./vf check C13 (BFS case without instance)', 'violates': False}
    inst = (inst[0], tuple(inst[1]) if isinstance(inst[1], (list, tuple)) else inst[1], _tup(inst[2]), _tup(inst[3])) + tuple(inst[4:])
    _, res = make(inst)
    init, verdict0 = state_of(res), bool(res)
    for oper in case.get('history', []):
        apply_op(oper, res)
    after = state_of(res)
    return {'verdict before': verdict0, 'verdict after': bool(res), 'difference': diff(after, init),
            'violates': after != init or bool(res) != verdict0}


def _tup(obj):
    if isinstance(obj, list):
        return tuple(_tup(x) for x in obj)
    return obj
