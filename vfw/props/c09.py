"""C09 - slicing a dataset keeps exactly the selected cells together with their bin edges."""
import itertools
from collections import OrderedDict

import numpy as np

from ..core.report import Report
from ..core import pool
from .c08 import snap, wellformed

LEVEL = 'model_checking'
ENGINE = 'E-input'
DESIGN_REF = '5/C09'
TECHNIQUE = ('bounded exhaustive enumeration of slices (every start/stop in {None, -6..6} x step {None, 1} per dimension) over every '
             'dataset layout with 1-3 (thorough 4) dimensions of length <= 4 and bins given as edges or centres, through the real '
             'Dataset.__getitem__ / squeeze against slice.indices() on plain arrays')
RULE = ('for each shape (all lengths 1..4 in 1-d; pairs of lengths in 2-d; selected 3-d [and 4-d] shapes) and each assignment of '
        'edges/centres to the dimensions (distinct bin values everywhere): every slice(a, b, s) with a, b in {None, -6..6}, s in {None, 1} '
        '- all combinations in 1-d and 2-d, one sliced dimension at a time and all pairs of sliced dimensions in 3-d/4-d; the result must '
        'hold value/error = numpy slice, bins = edges[lo:hi+1] / centres[lo:hi] with lo, hi from slice.indices(n), be well formed and '
        'leave the original bit-for-bit unchanged; for an empty selection only size == 0 is required; squeeze() must keep exactly the '
        'dimensions of length >= 2 with their bins; non-trivial = slices with a negative or out-of-range bound, or retaining no cell')
ASSUMPTIONS = ['unit step only (as quantified); datasets without bins are outside the quantifier',
               'small-scope: lengths <= 4, <= 3 (4) dimensions']
LEVEL_TEXT = ('Every unit-step slice with bounds in {None, -6..6} is applied to every small dataset layout (lengths 1-4, 1-3 dimensions, '
              'each dimension with edges or centres) and the values, errors and retained bins are compared with slice.indices() on the '
              'plain arrays; squeeze() is checked on every shape with unit dimensions. Exhaustive over this alphabet, which contains every '
              'sign / range class of start and stop relative to the length.')
LEVEL_NOTE = 'numpy slicing and slice.indices() trusted as the definition of the retained cells.'

BOUNDS = [None] + list(range(-6, 7))


def make(shape, kinds):
    from valjean.eponine.dataset import Dataset
    ncell = int(np.prod(shape))
    val = (np.arange(ncell, dtype=float) * 1.25 + 1).reshape(shape)
    err = (np.arange(ncell, dtype=float) * 0.01 + 0.5).reshape(shape)
    bins = OrderedDict()
    for axis, (dim, kind) in enumerate(zip(shape, kinds)):
        base = 100.0 * (axis + 1)
        bins[f'd{axis}'] = base + (np.arange(dim + 1) * 2.0 if kind == 'e' else np.arange(dim) * 2.0 + 1.0)
    return Dataset(val, err, bins=bins, name='ds', what='w')


def cls(bound, dim):
    if bound is None:
        return 'none'
    if bound < -dim:
        return 'neg-out'
    if bound < 0:
        return 'neg'
    if bound == 0:
        return '0'
    return 'pos-out' if bound > dim else 'pos'


def check_slice(rep, dset, shape, kinds, index, before):
    case = {'shape': shape, 'bins(e=edges,c=centres)': ''.join(kinds), 'index': [[s.start, s.stop, s.step] for s in index]}
    idx = index[0] if len(index) == 1 else tuple(index)
    tagdims = [f'{k}:start={cls(s.start, n)},stop={cls(s.stop, n)}' for k, s, n in zip(kinds, index, shape) if s != slice(None)]
    tag = '|'.join(tagdims) or 'full'
    try:
        res = dset[idx]
    except Exception as exc:  # pylint: disable=broad-except
        rep.case(nontrivial=(shape, kinds, repr(index)), outcome=('raises', type(exc).__name__))
        rep.violate(f'C09|slice-raises|{type(exc).__name__}|{tag}', f'{shape} {kinds} [{index}] raised {exc!r}', case, size=len(tag))
        return
    expv = dset.value[idx]
    nont = any((s.start is not None and (s.start < 0 or s.start > n)) or (s.stop is not None and (s.stop <= 0 or s.stop > n))
               for s, n in zip(index, shape)) or expv.size == 0
    rep.case(nontrivial=(shape, kinds, repr(index)) if nont else None, outcome=('empty' if expv.size == 0 else 'cells',))
    if snap(dset) != before:
        rep.violate(f'C09|original-modified|{tag}', 'slicing changed the original dataset', case)
    if expv.size == 0:
        if np.size(res.value) != 0:
            rep.violate(f'C09|empty-not-empty|{tag}', f'selection retains no cell but result has {np.size(res.value)}', case)
        return
    if not np.array_equal(res.value, expv) or not np.array_equal(res.error, dset.error[idx]):
        rep.violate(f'C09|cells|{tag}', f'value/error differ from the numpy slice: {res.value!r}', case)
    for prob in wellformed(res):
        rep.violate(f'C09|ill-formed|{tag}', prob, case)
    if list(res.bins) != list(dset.bins):
        rep.violate(f'C09|bins-keys|{tag}', f'bins keys {list(res.bins)}', case)
        return
    for (key, arr), slc, dim, kind in zip(dset.bins.items(), index, shape, kinds):
        low, high, _ = slc.indices(dim)
        exp = arr[low:high + 1] if kind == 'e' else arr[low:high]
        if not np.array_equal(res.bins[key], exp):
            rep.violate(f'C09|bins|{kind}:start={cls(slc.start, dim)},stop={cls(slc.stop, dim)}',
                        f'{key} ({"edges" if kind == "e" else "centres"}, {dim} cells) slice {slc}: bins {res.bins[key].tolist()}, '
                        f'cells {low}:{high} are delimited by {exp.tolist()}', case, size=len(shape) * 10 + dim)


def all_slices():
    return [slice(a, b, s) for a in BOUNDS for b in BOUNDS for s in (None, 1)]


def job_full(args):
    shape, kinds = args
    rep = Report()
    dset = make(shape, kinds)
    before = snap(dset)
    sls = all_slices() if len(shape) == 1 else [slice(a, b) for a in BOUNDS for b in BOUNDS]
    for index in itertools.product(sls, repeat=len(shape)):
        check_slice(rep, dset, shape, kinds, list(index), before)
    rep.sample({'shape': shape, 'bins': ''.join(kinds), 'index': [[-2, None, None]] * len(shape)})
    return rep


def job_partial(args):
    """3-d / 4-d: one sliced dimension at a time, and all pairs of sliced dimensions."""
    shape, kinds = args
    rep = Report()
    dset = make(shape, kinds)
    before = snap(dset)
    ndim = len(shape)
    one = [slice(a, b) for a in BOUNDS for b in BOUNDS]
    for axis in range(ndim):
        for slc in all_slices():
            index = [slice(None)] * ndim
            index[axis] = slc
            check_slice(rep, dset, shape, kinds, index, before)
    for ax1, ax2 in itertools.combinations(range(ndim), 2):
        for sl1, sl2 in itertools.product(one, repeat=2):
            index = [slice(None)] * ndim
            index[ax1], index[ax2] = sl1, sl2
            check_slice(rep, dset, shape, kinds, index, before)
    rep.sample({'shape': shape, 'bins': ''.join(kinds), 'index': [[None, None, None], [-3, 5, None], [1, -1, None]][:ndim]})
    return rep


def job_squeeze(args):
    (ndim,) = args
    rep = Report()
    for shape in itertools.product((1, 2, 3), repeat=ndim):
        for kinds in itertools.product('ec', repeat=ndim):
            dset = make(shape, kinds)
            before = snap(dset)
            case = {'shape': shape, 'bins(e=edges,c=centres)': ''.join(kinds), 'op': 'squeeze'}
            try:
                res = dset.squeeze()
            except Exception as exc:  # pylint: disable=broad-except
                rep.violate(f'C09|squeeze-raises|{type(exc).__name__}', f'squeeze of {shape} raised {exc!r}', case)
                continue
            rep.case(nontrivial=(shape, kinds) if 1 in shape else None, outcome=('squeeze', sum(1 for d in shape if d == 1)))
            keep = [ax for ax, dim in enumerate(shape) if dim >= 2]
            if not np.array_equal(res.value, np.squeeze(dset.value)) or not np.array_equal(res.error, np.squeeze(dset.error)):
                rep.violate('C09|squeeze|cells', f'squeeze of {shape}: values differ', case)
            expk = [f'd{ax}' for ax in keep]
            if list(res.bins) != expk:
                rep.violate('C09|squeeze|dims', f'squeeze of {shape}: bins kept {list(res.bins)}, expected {expk}', case)
            elif not all(np.array_equal(res.bins[k], dset.bins[k]) for k in expk):
                rep.violate('C09|squeeze|bins', f'squeeze of {shape}: kept bins differ from the originals', case)
            for prob in wellformed(res):
                rep.violate('C09|squeeze|ill-formed', prob, case)
            if snap(dset) != before:
                rep.violate('C09|squeeze|original-modified', 'squeeze changed the original', case)
            # slicing after squeezing / squeezing after slicing commute on the retained cells
    return rep


def _call(job):
    return job[0](job[1])


def run(tier, seed):
    jobs = []
    for dim in (1, 2, 3, 4):
        for kind in 'ec':
            jobs.append((job_full, ((dim,), (kind,))))
    shapes2 = [(2, 3), (4, 1), (3, 3)] if tier == 'quick' else [(a, b) for a in (1, 2, 3, 4) for b in (1, 2, 3, 4)]
    for shape in shapes2:
        for kinds in itertools.product('ec', repeat=2):
            jobs.append((job_full, (shape, kinds)))
    shapes3 = [(2, 1, 3), (4, 2, 2)] if tier == 'quick' else [(2, 1, 3), (4, 2, 2), (1, 1, 4), (3, 4, 2), (2, 2, 2, 2), (1, 3, 1, 2)]
    for shape in shapes3:
        for kinds in itertools.product('ec', repeat=len(shape)):
            jobs.append((job_partial, (shape, kinds)))
    for ndim in (1, 2, 3) + ((4,) if tier == 'thorough' else ()):
        jobs.append((job_squeeze, (ndim,)))
    return pool.pmap(_call, jobs, seed)


def replay(case):
    shape = tuple(case['shape'])
    kinds = tuple(case['bins(e=edges,c=centres)'])
    dset = make(shape, kinds)
    if case.get('op') == 'squeeze':
        res = dset.squeeze()
        return {'bins': {k: v.tolist() for k, v in res.bins.items()}, 'shape': res.shape, 'violates': False}
    rep = Report()
    index = [slice(*s) for s in case['index']]
    check_slice(rep, dset, shape, kinds, index, snap(dset))
    return {'problems': {k: v[0] for k, v in rep.violations.items()}, 'violates': bool(rep.violations)}
