"""C04, persisted path: histories of the real `valjean run` command (RunCommand.execute -> build_graphs -> read_env ->
Scheduler/QueueScheduling on real threads -> write_env) on one output directory.  Between runs tasks fail / recover, environment
files are lost, and tasks are added to / removed from the job.  The environment is carried over by the files only.

State = what is on disk (per task: status, rank of the start / end clocks among all persisted clocks).  Every transition is one
real run; the C04 clauses are judged on the environment the run returns, on the journal of executed tasks and on the entries
that were on disk when the run started."""
import argparse
import collections
import json
import logging
import os
import pickle
import shutil
import tempfile

from ..core.report import Report
from ..core import bfs

JOB_FILE = '''"""Job file of the C04 persisted-history check: tasks whose behaviour is read from a control file at execution time."""
import json
import os

from valjean.cosette.task import Task, TaskStatus

CTRL = os.environ['VF_C04_CTRL']


class Step(Task):
    def do(self, env, config):
        with open(CTRL, encoding='utf-8') as fil:
            ctrl = json.load(fil)
        out = os.path.join(config.query('path', 'output-root'), self.name)
        os.makedirs(out, exist_ok=True)
        with open(CTRL + '.journal', 'a', encoding='utf-8') as fil:
            fil.write(self.name + '\\n')
        inputs = {dep.name: (env.get(dep.name) or {}).get('payload') for dep in sorted(self.depends_on | self.soft_depends_on, key=lambda t: t.name)}
        upd = {self.name: {'output_dir': out, 'payload': [self.name, ctrl['run']], 'inputs': inputs}}
        return upd, (TaskStatus.FAILED if self.name in ctrl['fail'] else TaskStatus.DONE)


def job(which='abcd'):
    """a; b hard on a; c soft on a; d hard on b and soft on c.  `which` lists the tasks the user asks for (dependencies follow)."""
    a = Step('a')
    b = Step('b', deps=[a])
    c = Step('c', soft_deps=[a])
    d = Step('d', deps=[b], soft_deps=[c])
    tasks = {'a': a, 'b': b, 'c': c, 'd': d}
    return [tasks[k] for k in which]
'''
TASKS = ('a', 'b', 'c', 'd')
DEPS = {'a': [], 'b': [('a', 'h')], 'c': [('a', 's')], 'd': [('b', 'h'), ('c', 's')]}
FILENAME = 'valjean.env'


def closure(which):
    todo, seen = list(which), set()
    while todo:
        cur = todo.pop()
        if cur not in seen:
            seen.add(cur)
            todo.extend(d for d, _ in DEPS[cur])
    return seen


def cone(name):
    return closure([name]) - {name}


def fresh(pre, name):
    """In the persisted state `pre` (DONE entries) every dependency of `name` finished before `name` started."""
    start = pre[name].get('start_clock')
    return all(start is not None and pre[dep].get('end_clock') is not None and pre[dep]['end_clock'] <= start for dep, _ in DEPS[name])


def sname(ent):
    return getattr((ent or {}).get('status'), 'name', None)


def oracle(pre, last, executed, which, tag):
    """pre: DONE entries readable on disk before the run; last: environment returned by the run; executed: Counter of the journal."""
    bad = []
    present = closure(which)
    for name in sorted(present):
        ent = last.get(name) if name in last else None
        if ent is None:
            bad.append((f'C04|persisted|no-entry|{tag}', f'task {name} has no entry at the end of the run'))
            continue
        if sname(ent) == 'DONE':
            for dep, kind in DEPS[name]:
                dent = last.get(dep) if dep in last else None
                if kind == 'h' and sname(dent) in ('FAILED', 'SKIPPED'):
                    bad.append((f'C04|persisted|done-with-failed-hard-dep|{name}|executed={executed[name]}|{tag}',
                                f'{name} is DONE (executed {executed[name]}x in this run) although its hard dependency {dep} is {sname(dent)}'))
                if sname(dent) == 'DONE':
                    dend, tstart = dent.get('end_clock'), ent.get('start_clock')
                    if dend is None or tstart is None or dend > tstart:
                        bad.append((f'C04|persisted|stale-done|{name}<-{dep}|dep-executed={executed[dep]}|task-executed={executed[name]}|{tag}',
                                    f'{name} is DONE with start clock {tstart} but its DONE dependency {dep} finished at {dend} '
                                    f'({dep} executed {executed[dep]}x, {name} {executed[name]}x in this run); {name} used inputs '
                                    f'{ent.get("inputs")}, {dep} now holds {dent.get("payload")}'))
        before = pre.get(name)
        # "was DONE ... and is not out of date": the clause presupposes a state in which the task is up to date, i.e. along every
        # edge of its cone the dependency finished before the dependent started (a run of a part of the job can leave other
        # tasks out of date on disk; those must be re-executed by the first clause)
        if before is not None and all(dep in pre for dep in cone(name)) and all(executed[dep] == 0 for dep in cone(name)) \
                and all(fresh(pre, tsk) for tsk in cone(name) | {name}):
            if executed[name]:
                bad.append((f'C04|persisted|needless-rerun|{name}|{tag}',
                            f'{name} was DONE on disk with an untouched DONE dependency cone but was executed {executed[name]}x'))
            elif dict(ent) != before:
                bad.append((f'C04|persisted|entry-touched|{name}|{tag}', f'{name} was not executed but its entry changed from {before} to {dict(ent)}'))
        if executed[name] > 1:
            bad.append((f'C04|persisted|executed-twice|{name}|{tag}', f'{name} executed {executed[name]}x in one run'))
    for name in executed:
        if name not in present:
            bad.append((f'C04|persisted|executed-unrequested|{name}|{tag}', f'{name} is not part of the job but was executed'))
    return bad


def job_persist(args):
    depth, first, workers = args
    from valjean.cambronne.commands.run import RunCommand
    from valjean.config import Config
    rep = Report()
    root = tempfile.mkdtemp(prefix='vf_c04p_')
    jobfile = os.path.join(root, 'job_c04.py')
    with open(jobfile, 'w', encoding='utf-8') as fil:
        fil.write(JOB_FILE)
    ctrl = os.path.join(root, 'ctrl.json')
    os.environ['VF_C04_CTRL'] = ctrl
    work = os.path.join(root, 'work')

    def file_of(name):
        return os.path.join(work, 'out', name, FILENAME)

    def on_disk():
        """DONE entries a reader can get back (own unpickling, independent of read_env)."""
        out = {}
        for name in TASKS:
            try:
                with open(file_of(name), 'rb') as fil:
                    ent = pickle.loads(fil.read())[name]
            except Exception:  # pylint: disable=broad-except
                continue
            out[name] = dict(ent)
        return out

    def run_once(fail, which, number):
        with open(ctrl, 'w', encoding='utf-8') as fil:
            json.dump({'fail': sorted(fail), 'run': number}, fil)
        if os.path.exists(ctrl + '.journal'):
            os.remove(ctrl + '.journal')
        conf = Config()
        conf.set('path', 'output-root', os.path.join(work, 'out'))
        conf.set('path', 'log-root', os.path.join(work, 'log'))
        nsp = argparse.Namespace(job_file=jobfile, job_args=[], job_kwargs={'which': which}, workers=workers,
                                 env_filename=FILENAME, env_format='pickle')
        env = RunCommand().execute(nsp, conf)
        executed = collections.Counter()
        if os.path.exists(ctrl + '.journal'):
            with open(ctrl + '.journal', encoding='utf-8') as fil:
                executed.update(fil.read().split())
        return env, executed

    def build(hist):
        shutil.rmtree(work, ignore_errors=True)
        os.makedirs(work)
        info = {'err': None, 'pre': None, 'last': None, 'executed': None, 'which': None}
        for number, step in enumerate(((first,) if first else ()) + tuple(hist)):
            try:
                if step[0] == 'run':
                    pre = {k: v for k, v in on_disk().items() if sname(v) == 'DONE'}
                    last, executed = run_once(step[1], step[2], number)
                    info.update(pre=pre, last=last, executed=executed, which=step[2])
                elif os.path.isfile(file_of(step[1])):
                    os.remove(file_of(step[1]))
            except Exception as exc:  # pylint: disable=broad-except
                info['err'] = (step, exc)
                break
        return info

    def canon(_info):
        disk = on_disk()
        clocks = sorted({v for e in disk.values() for k, v in e.items() if k.endswith('_clock') and v is not None})
        rank = {c: r for r, c in enumerate(clocks)}
        return tuple((sname(disk[n]), rank.get(disk[n].get('start_clock')), rank.get(disk[n].get('end_clock'))) if n in disk else None
                     for n in TASKS)

    def check(hist, info):
        full = ((first,) if first else ()) + tuple(hist)
        if info['err'] is not None:
            step, exc = info['err']
            return [(f'C04|persisted|raises|{type(exc).__name__}|after-{step[0]}', f'step {step} raised {exc!r}')]
        if not full or full[-1][0] != 'run':
            return []
        tag = f'w{workers}'
        probs = oracle(info['pre'], info['last'], info['executed'], info['which'], tag)
        rep.outcomes[('persisted', tuple(sname(info['last'].get(n) if n in info['last'] else None) for n in TASKS),
                      tuple(info['executed'][n] for n in TASKS))] += 1
        if info['pre']:
            rep.nontrivial_count += 1
        return probs

    ops = [('run', (), 'abcd'), ('run', ('a',), 'abcd'), ('run', ('b',), 'abcd'), ('run', ('c',), 'abcd'), ('run', (), 'b'), ('run', (), 'c')]
    ops += [('lose', name) for name in TASKS]
    logging.disable(logging.CRITICAL)
    try:
        bfs.search(build, lambda h, o: [] if o['err'] else ops, canon, check, depth, rep,
                   label=f'persisted:first={first}:w{workers}', prune_violating=True)
    finally:
        logging.disable(logging.NOTSET)
        shutil.rmtree(root, ignore_errors=True)
    rep.configs.append({'persisted histories': f'first={first}', 'workers': workers, 'depth': depth + 1, 'states': rep.states})
    return rep


def jobs(tier):
    firsts = [('run', (), 'abcd'), ('run', ('a',), 'abcd'), ('run', ('b',), 'abcd'), ('run', ('c',), 'abcd'), ('run', (), 'b'), ('run', (), 'c')]
    depth = 3 if tier == 'quick' else 4
    return [(depth, first, workers) for first in firsts for workers in (1, 2)]


def replay(case):
    import ast
    label = case['label']           # persisted:first=(...):wN
    first = ast.literal_eval(label[len('persisted:first='):label.rindex(':w')])
    workers = int(label[label.rindex(':w') + 2:])
    hist = tuple(tuple(tuple(x) if isinstance(x, list) else x for x in step) for step in case['history'])
    sub = job_persist_single(len(hist), first, workers, hist)
    found = [(k, v[0]) for k, v in sub.violations.items()]
    return {'problems': found, 'violates': bool(found)}


def job_persist_single(depth, first, workers, hist):
    """Replay of one history: the BFS restricted to the prefixes of `hist`."""
    saved = bfs.search

    def only(build, ops_of, canon, check, _depth, report, label='', prune_violating=True, on_new=None):
        for i in range(len(hist) + 1):
            obj = build(hist[:i])
            for key, what in check(hist[:i], obj):
                report.violate(key, what, {'history': [list(s) for s in hist[:i]], 'label': label}, size=i)
        return {}
    bfs.search = only
    try:
        return job_persist((depth, first, workers))
    finally:
        bfs.search = saved
