"""C02 - run outcome depends on the graph and task results only, not on the schedule."""
import itertools

from ..sched import check, configs as C
from .c01 import LEVEL, TECHNIQUE, ASSUMPTIONS  # noqa: F401  pylint: disable=unused-import

RULE = ('[outcomes also: update replacing the own entry by a non-dictionary, update whose merge fails half-way; a DepGraph used as a node; a second schedule() on the same backend with another graph; the same graph objects handed to a second Scheduler] ' +
        'every schedule with at most `preemption_bound` preemptions of Scheduler.schedule() from an empty Env, for each listed '
        'configuration (graph with hard/soft edges x assignment of outcomes {ok, raise, FAILED, None, not-a-pair, bad status, '
        'bad update, 3-tuple} x worker count); on every execution the final status map and the per-task execution counters must '
        'equal a reference computed from the graph and the outcomes alone (configurations[].distinct_final_status_maps must be 1); '
        'non-trivial = executions with at least one preemption')


def plan(tier):
    out = []
    # every assignment of the 8 outcomes to a 2-task chain (hard / soft)
    for edges in (C.CHAIN2, C.CHAIN2S):
        for outs in itertools.product(C.ALL, repeat=2):
            out.append((C.cfg(2, edges, outs, 2), 1))
            out.append((C.cfg(2, edges, outs, 1), 2))
        for dep_out in (C.ALL if tier == 'thorough' else ('ok', 'raise', 'fail', 'badupdate')):
            out.append((C.cfg(2, edges, [dep_out, 'ok'], 2), 2))
    # 3-task mixed graphs, every assignment of {ok, raise, fail}
    graphs = [C.CHAIN3HS, C.JOIN3HS, C.TRI3] if tier == 'quick' else list(C.forward_dags(3))
    for edges in graphs:
        for outs in itertools.product(('ok', 'raise', 'fail'), repeat=3):
            out.append((C.cfg(3, edges, outs, 2), 1))
            if tier == 'thorough' and edges in (C.CHAIN3HS, C.CHAIN3SH, C.FORK3HS, C.JOIN3HS, C.TRI3):
                out.append((C.cfg(3, edges, outs, 1), 2))
                out.append((C.cfg(3, edges, outs, 3), 0))
    for edges in ((C.CHAIN3HS, C.JOIN3HS, C.TRI3) if tier == 'thorough' else (C.CHAIN3HS, C.JOIN3HS)):
        for k in range(3):
            for bad in ('none', 'notpair', 'badstatus', 'badupdate', 'triple'):
                outs = ['ok'] * 3
                outs[k] = bad
                out.append((C.cfg(3, edges, outs, 2), 1))
    # the outcome depends on the graph given to THIS run: the same backend object and task objects scheduled a second time with
    # another graph and a fresh environment (edges added, removed, hard <-> soft)
    pairs2 = [([], C.CHAIN2), (C.CHAIN2, []), (C.CHAIN2S, C.CHAIN2), (C.CHAIN2, C.CHAIN2S)]
    for one, two in pairs2:
        for outs in (('fail', 'ok'), ('ok', 'ok'), ('raise', 'fail')):
            for wrk in (1, 2):
                out.append((C.cfg(2, one, outs, wrk, second=two), (1 if wrk == 1 else 0) if tier == 'quick' else (2 if wrk == 1 else 1)))
    # ... and the same graph OBJECTS handed to a second Scheduler (scheduling again with another worker count): building a
    # scheduler must leave the caller's graphs as they were
    for edges, outs in ((C.CHAIN2S, ('fail', 'ok')), (C.CHAIN2S, ('raise', 'ok')), (C.JOIN3HS, ('ok', 'fail', 'ok')), (C.TRI3, ('fail', 'ok', 'ok')),
                        (C.CHAIN3SH, ('fail', 'ok', 'ok'))):
        out.append((C.cfg(len(outs), edges, outs, 2, second='same'), 0 if tier == 'quick' else 1))
        out.append((C.cfg(len(outs), edges, outs, 1, second='same'), 1))
    pairs3 = [([], C.JOIN3HS), (C.CHAIN3, C.FORK3HS), (C.JOIN3SS, C.TRI3), (C.TRI3, [])]
    for one, two in pairs3:
        for outs in (('fail', 'ok', 'ok'), ('ok', 'fail', 'ok')) + ((('ok', 'ok', 'ok'), ('raise', 'raise', 'ok')) if tier == 'thorough' else ()):
            out.append((C.cfg(3, one, outs, 2, second=two), 1 if tier == 'thorough' else 0))
    # an update that is not a mapping but is falsy ([]): FAILED like any other malformed result
    for edges in (C.CHAIN2, C.CHAIN2S):
        for wrk in (1, 2):
            out.append((C.cfg(2, edges, ['emptyupdate', 'ok'], wrk), 1))
    out.append((C.cfg(3, C.CHAIN3HS, ['ok', 'emptyupdate', 'ok'], 2), 0))
    # a DepGraph used as a node of the hard graph, added before or after the plain tasks: the flattened graph decides
    for edges in (C.JOIN3, C.CHAIN3, C.FORK3HS, C.TRI3):
        for members in ((0,), (1,), (2,), (0, 1), (1, 2), (0, 2)):
            for first in (True, False):
                for outs in (('fail', 'ok', 'ok'), ('ok', 'fail', 'ok')):
                    out.append((C.cfg(3, edges, outs, 2, nest=(members, first)), 0 if tier == 'quick' else 1))
    if tier == 'thorough':
        out.append((C.cfg(3, C.JOIN3HS, ['fail', 'raise', 'ok'], 2), 2))
        out.append((C.cfg(3, C.CHAIN3HS, ['raise', 'ok', 'ok'], 2), 2))
        for edges in (C.CHAIN3HS, C.CHAIN3SH, C.FORK3HS, C.JOIN3HS, C.TRI3):
            for outs in (('fail', 'ok', 'ok'), ('ok', 'raise', 'ok'), ('ok', 'ok', 'ok')):
                out.append((C.cfg(3, edges, outs, 2), 2))
        for outs in itertools.product(('ok', 'fail'), repeat=4):
            out.append((C.cfg(4, C.DIAMOND4, outs, 2), 1))
        for edges in (C.CHAIN2, C.CHAIN2S):
            for outs in itertools.product(C.ALL, repeat=2):
                out.append((C.cfg(2, edges, outs, 3), 1))
    return out


def run(tier, seed):
    rep = check.run_configs('C02', plan(tier), seed, 420 if tier == 'quick' else 3000)
    if tier == 'thorough':      # all interleavings (sleep sets) of the smallest configurations
        rep.merge(check.run_por('C02', [C.cfg(2, C.CHAIN2, [a, 'ok'], 1) for a in ('ok', 'raise', 'badupdate', 'none')] + [C.cfg(2, C.CHAIN2S, ['fail', 'badstatus'], 1)], seed))
    return rep


def replay(case):
    return check.replay(case)


ENGINE = 'E-sched'
DESIGN_REF = '4/C02'
LEVEL_TEXT = ('For every explored schedule (same exploration as C01, preemption bound 1-2) of every configuration - all 64 outcome pairs on hard/soft 2-chains, all {ok, raise, FAILED}^3 assignments on mixed 3-task graphs (all 27 forward DAGs in thorough), each malformed return on each task - the final status map and the execution counters equal a 10-line reference that only reads the graph and the outcomes; hence one status map per configuration whatever the schedule and worker count.')
LEVEL_NOTE = ('Same trusted base as C01; reference model is vfw/sched/harness.py:reference.')
