"""C05 - Student test verdict is true exactly when every bin is statistically compatible."""
import itertools
import math

import numpy as np
from scipy import special

from ..core.report import Report
from ..core import pool

LEVEL = 'model_checking'
ENGINE = 'E-input'
DESIGN_REF = '5/C05'
TECHNIQUE = ('bounded exhaustive enumeration of inputs (all per-bin value/error combinations over a small alphabet x levels x '
             'degrees of freedom x shapes x numbers of datasets) of the real TestStudent against a scalar reference model, plus '
             'every instance of each metamorphic relation inside the enumerated set')
RULE = ('[also: the same test object evaluated again after a bin of a dataset was edited in place, for every ordered pair of bin classes] ' +
        'per (alpha, ndf): every bin (v1, e1, v2, e2) over the value and error alphabets, evaluated once as a cell of one array '
        'dataset, once as a scalar dataset and once as a cell of a square 2-d array stored Fortran-ordered / as a transposed view / strided '
        '(same t, p and decision as in the C-ordered array); every assignment of the bin classes {pass (t = 0), fail (|t| = 7e6), undefined[, near (t = -0.35, verdict from the reference)]} to the cells of the '
        'shapes (), (1,), (3,), (2,2), (1,2,1) for 1-3 compared datasets; relations: swap of the datasets, common rescaling by 2 and '
        '1e-3, monotonicity in |v1-v2| and in the errors over all pairs of enumerated bins; non-trivial = bins with a zero, NaN or '
        'infinite ingredient, and multi-cell / multi-dataset assignments that mix classes')
ASSUMPTIONS = ['reference tail probabilities from scipy.special.ndtr / stdtr (the code uses scipy.stats ppf/sf)',
               'verdicts within 1e-9 (relative) of the decision boundary are not compared (counted as boundary_skipped)',
               'small-scope: <= 4 cells per array, <= 3 compared datasets']
LEVEL_TEXT = ('Every combination of 9-12 values x 6-7 errors on both sides (2916-7056 bins) x 3-5 levels x 4-5 degrees of freedom is '
              'evaluated through the array path and the scalar path of the real TestStudent and compared bin by bin (t, p-value, oracle, '
              'p-value decision) with a scalar reference; verdict aggregation is checked on every class assignment to <= 4 cells and <= 3 '
              'datasets; symmetry, rescaling and monotonicity are checked on every pair of enumerated bins. Exhaustive over this alphabet, '
              'which holds one representative per branch of student_test (0/0, NaN/NaN, one-sided NaN, infinities, zero errors).')
LEVEL_NOTE = 'scipy.special as independent source of the tail probabilities; guard band at the decision boundary.'

VALS_Q = [-2.0, 0.0, 1.0, 1.000001, 3e-12, 1.3, 4.0, float('nan'), float('inf')]    # incl. two close values and a tiny one
VALS_T = VALS_Q + [float('-inf'), 1e300, 5e-324]
ERRS_Q = [0.0, 1e-12, 0.1, 1.0, float('nan'), float('inf')]
ERRS_T = ERRS_Q + [1e-300]
SHAPES = [(), (1,), (3,), (2, 2), (1, 2, 1)]
#          v1   e1   v2    e2
# classes whose verdict does not depend on the level / degrees of freedom of the alphabet: t = 0, |t| = 7e6, undefined;
# 'near' (t = -0.35) is level dependent: its verdict is taken from the reference
CLASSES = {'pass': (1.0, 0.1, 1.0, 0.1), 'fail': (1.0, 0.1, 1.0e6, 0.1), 'undef': (1.0, 0.1, float('nan'), 0.1),
           'near': (1.0, 0.1, 1.05, 0.1)}


def ref_t(v1, e1, v2, e2):
    """Documented conventions: 0/0 -> 0, 0/NaN with NaN errors on both sides -> 0, NaN values on both sides -> 0."""
    if math.isnan(v1) and math.isnan(v2):
        return 0.0
    diff = v1 - v2
    err = math.sqrt(e1 * e1 + e2 * e2)
    if diff == 0 and err == 0:
        return 0.0
    if diff == 0 and math.isnan(e1) and math.isnan(e2):
        return 0.0
    if err == 0:
        return math.nan if math.isnan(diff) else math.copysign(math.inf, diff)
    return diff / err


def ref_p(tval, ndf):
    if math.isnan(tval):
        return math.nan
    if ndf is None:
        return 2.0 * float(special.ndtr(-abs(tval)))
    return 2.0 * float(special.stdtr(ndf, -abs(tval)))


def close(a, b, rtol):
    a, b = float(a), float(b)
    if math.isnan(a) or math.isnan(b):
        return math.isnan(a) and math.isnan(b)
    if math.isinf(a) or math.isinf(b):
        return a == b
    return abs(a - b) <= rtol * max(abs(a), abs(b)) + 1e-300


def verdict_ref(pval, alpha):
    """True / False / None (boundary: not compared)."""
    if math.isnan(pval):
        return False
    if abs(pval - alpha) <= 1e-9 * alpha:
        return None
    return pval > alpha


def _mk(values, errors, shape=None):
    from valjean.eponine.dataset import Dataset
    if shape == ():
        return Dataset(np.float64(values), np.float64(errors))
    val, err = np.array(values, dtype=float), np.array(errors, dtype=float)
    if shape is not None:
        val, err = val.reshape(shape), err.reshape(shape)
    return Dataset(val, err)


def job(args):
    tier, alpha, ndf, do_shapes = args
    from valjean.gavroche.stat_tests.student import TestStudent
    rep = Report()
    vals, errs = (VALS_Q, ERRS_Q) if tier == 'quick' else (VALS_T, ERRS_T)
    bins = list(itertools.product(vals, errs, vals, errs))
    ctx = f'alpha={alpha},ndf={ndf}'
    refs = [ref_t(*b) for b in bins]
    refp = [ref_p(t, ndf) for t in refs]
    refv = [verdict_ref(p, alpha) for p in refp]

    def judge(kind, i, tst, pvl, orc, pdec):
        b = bins[i]
        special_bin = any(x == 0 or math.isnan(x) or math.isinf(x) for x in b)
        rep.case(nontrivial=(kind, i, alpha, ndf) if special_bin else None,
                 outcome=(kind, 'pass' if orc else 'fail'))
        case = {'path': kind, 'bin(v1,e1,v2,e2)': b, 'alpha': alpha, 'ndf': ndf}
        tag = _tag(b)
        if not close(tst, refs[i], 1e-12):
            rep.violate(f'C05|t-value|{kind}|{tag}', f'{ctx} bin {b}: t={tst!r}, reference {refs[i]!r}', case)
        if not close(pvl, refp[i], 1e-9):
            rep.violate(f'C05|p-value|{kind}|{tag}', f'{ctx} bin {b}: p={pvl!r}, reference {refp[i]!r}', case)
        if refv[i] is None:
            rep.counters['boundary_skipped'] += 1
            return
        if bool(orc) != refv[i]:
            rep.violate(f'C05|oracle|{kind}|{tag}', f'{ctx} bin {b}: oracle {bool(orc)}, reference {refv[i]} (t={refs[i]!r})', case)
        if pdec is not None and bool(pdec) != refv[i]:
            rep.violate(f'C05|pvalue-decision|{kind}|{tag}', f'{ctx} bin {b}: test_pvalue() says {bool(pdec)}, reference {refv[i]}', case)

    # ---- array path: one dataset holding every bin
    ds1 = _mk([b[0] for b in bins], [b[1] for b in bins])
    ds2 = _mk([b[2] for b in bins], [b[3] for b in bins])
    res = TestStudent(ds1, ds2, name='c05', alpha=alpha, ndf=ndf).evaluate()
    orc = res.oracles()[0]
    pdec = res.test_pvalue()
    pdec = None if pdec is False else pdec[0]
    if pdec is None:
        rep.violate('C05|pvalue-decision|unavailable', f'{ctx}: test_pvalue() returned False instead of a per-bin decision '
                    'although p-values are recorded', {'alpha': alpha, 'ndf': ndf})
    for i in range(len(bins)):
        judge('array', i, res.tstud[0][i], res.pvalue[0][i], orc[i], None if pdec is None else pdec[i])
    exp_all = None if any(v is None for v in refv) else all(refv)
    if exp_all is not None and bool(res) != exp_all:
        rep.violate('C05|verdict|array-all', f'{ctx}: verdict {bool(res)} over all bins, reference {exp_all}', {'alpha': alpha, 'ndf': ndf})
    arr_orc = [bool(x) for x in orc]
    # ---- memory layouts: the same bins as a square 2-d array stored Fortran-ordered, as a transposed view and as a strided view
    side = int(round(math.sqrt(len(bins))))
    if side * side == len(bins):
        def lay(arr, how):
            arr = np.array(arr, dtype=float).reshape(side, side)
            if how == 'fortran':
                return np.asfortranarray(arr)
            if how == 'transposed-view':
                return np.ascontiguousarray(arr.T).T
            wide = np.zeros((side, 2 * side))
            wide[:, ::2] = arr
            return wide[:, ::2]
        from valjean.eponine.dataset import Dataset
        ref_ts, ref_ps = np.asarray(res.tstud[0], dtype=float), np.asarray(res.pvalue[0], dtype=float)
        for how in ('fortran', 'transposed-view', 'strided'):
            da = Dataset(lay([b[0] for b in bins], how), lay([b[1] for b in bins], how))
            db = Dataset(lay([b[2] for b in bins], how), lay([b[3] for b in bins], how))
            resl = TestStudent(da, db, name='c05', alpha=alpha, ndf=ndf).evaluate()
            got_t = np.asarray(resl.tstud[0], dtype=float).reshape(-1)
            got_p = np.asarray(resl.pvalue[0], dtype=float).reshape(-1)
            got_o = np.asarray(resl.oracles()[0]).reshape(-1)
            rep.evaluations += len(bins)
            rep.outcomes[('layout', how, bool(resl))] += 1
            for i in np.flatnonzero(~(np.isclose(got_t, ref_ts, rtol=1e-12, atol=0, equal_nan=True) | (got_t == ref_ts))
                                    | ~(np.isclose(got_p, ref_ps, rtol=1e-9, atol=0, equal_nan=True))
                                    | (got_o.astype(bool) != np.array(arr_orc)))[:20]:
                rep.violate(f'C05|layout|{how}|{_tag(bins[i])}', f'{ctx} bin {bins[i]} in a {how} array: t={got_t[i]!r} p={got_p[i]!r} '
                            f'oracle={bool(got_o[i])}, the same bin in a C-ordered array gives t={ref_ts[i]!r} p={ref_ps[i]!r} oracle={arr_orc[i]}',
                            {'bin(v1,e1,v2,e2)': bins[i], 'layout': how, 'alpha': alpha, 'ndf': ndf})
            if bool(resl) != bool(res):
                rep.violate(f'C05|layout|{how}|verdict', f'{ctx}: verdict {bool(resl)} for the {how} arrays, {bool(res)} for C-ordered ones',
                            {'layout': how, 'alpha': alpha, 'ndf': ndf})
    else:
        rep.counters['layout_part_skipped_not_square'] += 1
    # ---- swap, rescaling
    for kind, fac, swap in (('swap', 1.0, True), ('x2', 2.0, False), ('x1e-3', 1e-3, False)):
        da = _mk([b[0] * fac for b in bins], [b[1] * fac for b in bins])
        db = _mk([b[2] * fac for b in bins], [b[3] * fac for b in bins])
        if swap:
            da, db = db, da
        orc2 = TestStudent(da, db, name='c05', alpha=alpha, ndf=ndf).evaluate().oracles()[0]
        for i, b in enumerate(bins):
            rep.evaluations += 1
            if refv[i] is None:
                continue
            if fac != 1.0 and (any(math.isinf(x * fac) != math.isinf(x) for x in b) or any(x != 0 and x * fac == 0 for x in b)
                               or any(0 < abs(x) < 1e-290 or abs(x) > 1e290 for x in b if not math.isnan(x))):
                rep.counters['rescale_skipped_overflow'] += 1     # not "the same comparison" once a number over/underflows
                continue
            if bool(orc2[i]) != arr_orc[i]:
                rep.violate(f'C05|relation|{kind}|{_tag(b)}', f'{ctx} bin {b}: oracle {arr_orc[i]} becomes {bool(orc2[i])} under {kind}',
                            {'bin(v1,e1,v2,e2)': b, 'relation': kind, 'alpha': alpha, 'ndf': ndf})
    # ---- monotonicity over all pairs of finite bins
    fin = [i for i, b in enumerate(bins) if all(math.isfinite(x) for x in b) and refv[i] is not None]
    dif = np.array([abs(bins[i][0] - bins[i][2]) for i in fin])
    e1s = np.array([bins[i][1] for i in fin])
    e2s = np.array([bins[i][3] for i in fin])
    okk = np.array([arr_orc[i] for i in fin])
    # b' dominates b: difference at least as large, errors at most as large -> pass(b') implies pass(b)
    dom = (dif[:, None] >= dif[None, :]) & (e1s[:, None] <= e1s[None, :]) & (e2s[:, None] <= e2s[None, :])
    badpairs = np.argwhere(dom & okk[:, None] & ~okk[None, :])
    rep.evaluations += int(dom.sum())
    rep.counters['monotonicity_pairs'] += int(dom.sum())
    for ia, ib in badpairs[:5]:
        rep.violate('C05|relation|monotonic', f'{ctx}: bin {bins[fin[ia]]} passes but the easier bin {bins[fin[ib]]} fails',
                    {'harder': bins[fin[ia]], 'easier': bins[fin[ib]], 'alpha': alpha, 'ndf': ndf})
    # ---- scalar path: every bin as a scalar dataset
    for i, b in enumerate(bins):
        res = TestStudent(_mk(b[0], b[1], ()), _mk(b[2], b[3], ()), name='c05', alpha=alpha, ndf=ndf).evaluate()
        pdec = res.test_pvalue()
        judge('scalar', i, res.tstud[0], res.pvalue[0], res.oracles()[0], None if pdec is False else pdec[0])
        if refv[i] is not None and bool(res) != refv[i]:
            rep.violate(f'C05|verdict|scalar|{_tag(b)}', f'{ctx} bin {b}: verdict {bool(res)}, reference {refv[i]}',
                        {'path': 'scalar', 'bin(v1,e1,v2,e2)': b, 'alpha': alpha, 'ndf': ndf})
    # ---- aggregation over cells and datasets
    if do_shapes:
        names = ['pass', 'fail', 'undef'] + (['near'] if tier == 'thorough' else [])
        cref = {n: verdict_ref(ref_p(ref_t(*CLASSES[n]), ndf), alpha) for n in names}
        assert cref['pass'] is True and cref['fail'] is False and cref['undef'] is False, cref
        if cref.get('near') is None:
            names = [n for n in names if n != 'near']        # on the decision boundary for this level: not used
        for shape in SHAPES:
            ncell = int(np.prod(shape)) if shape else 1
            for nds in (1, 2, 3):
                if ncell * nds > (8 if tier == 'quick' else 9):
                    rep.counters['aggregation_combos_out_of_bound'] += 1
                    continue
                for assign in itertools.product(names, repeat=ncell * nds):
                    # reference dataset: (1.0 +- 0.1) in every cell; the class decides the compared cell
                    dsr = _mk([1.0] * ncell if shape != () else 1.0, [0.1] * ncell if shape != () else 0.1, shape)
                    others = []
                    exp = True
                    for k in range(nds):
                        cls = assign[k * ncell:(k + 1) * ncell]
                        v2 = [CLASSES[c][2] for c in cls]
                        e2 = [CLASSES[c][3] for c in cls]
                        exp = exp and all(cref[c] for c in cls)
                        others.append(_mk(v2 if shape != () else v2[0], e2 if shape != () else e2[0], shape))
                    res = TestStudent(dsr, *others, name='c05', alpha=alpha, ndf=ndf).evaluate()
                    mixed = len(set(assign)) > 1
                    rep.case(nontrivial=(shape, nds, assign, alpha, ndf) if mixed else None,
                             outcome=('aggregate', bool(res)))
                    got_orc = all(bool(np.all(o)) for o in res.oracles())
                    if bool(res) != exp or got_orc != exp:
                        rep.violate(f'C05|verdict|aggregate|shape={shape}|nds={nds}',
                                    f'{ctx} shape {shape}, {nds} dataset(s), classes {assign}: verdict {bool(res)}, all(oracles) {got_orc}, reference {exp}',
                                    {'shape': shape, 'classes': assign, 'n_datasets': nds, 'alpha': alpha, 'ndf': ndf},
                                    size=len(assign))
        # the same test object evaluated again after one of its datasets was edited in place: the verdict follows the data
        for before, after in itertools.permutations(names, 2):
            for nds in (1, 2):
                dsr = _mk([1.0] * 3, [0.1] * 3, (3,))
                others = [_mk([CLASSES['pass'][2]] * 3, [CLASSES['pass'][3]] * 3, (3,)) for _ in range(nds)]
                others[-1].value[1], others[-1].error[1] = CLASSES[before][2], CLASSES[before][3]
                test = TestStudent(dsr, *others, name='c05', alpha=alpha, ndf=ndf)
                first = bool(test.evaluate())
                others[-1].value[1], others[-1].error[1] = CLASSES[after][2], CLASSES[after][3]
                again = test.evaluate()
                rep.case(nontrivial=('re-evaluate', before, after, nds, alpha, ndf), outcome=('re-evaluate', bool(again)))
                got_orc = all(bool(np.all(o)) for o in again.oracles())
                if first != cref[before] or bool(again) != cref[after] or got_orc != cref[after]:
                    rep.violate(f'C05|verdict|re-evaluated-after-edit|{before}->{after}',
                                f'{ctx}: bin 1 of the last dataset edited from class {before!r} to {after!r} between two evaluate() calls of one '
                                f'test: verdicts {first}, {bool(again)} (oracles {got_orc}), reference {cref[before]}, {cref[after]}',
                                {'re-evaluation': [before, after], 'n_datasets': nds, 'alpha': alpha, 'ndf': ndf})
        rep.sample({'aggregate': {'shape': (2, 2), 'classes': ['pass', 'fail', 'undef', 'pass'], 'alpha': alpha, 'ndf': ndf}})
    rep.sample({'bin(v1,e1,v2,e2)': bins[len(bins) // 3], 'alpha': alpha, 'ndf': ndf, 'reference_t': refs[len(bins) // 3]})
    return rep


def _tag(b):
    def one(x):
        if math.isnan(x):
            return 'nan'
        if math.isinf(x):
            return 'inf' if x > 0 else '-inf'
        return '0' if x == 0 else 'x'
    return 'v1={},e1={},v2={},e2={}'.format(*[one(x) for x in b])


def run(tier, seed):
    # levels down to far below the spacing of doubles around 1 (1 - alpha/2 == 1.0): 'all significance levels in (0,1)'
    alphas = [0.01, 0.05, 0.5, 1e-18] + ([1e-6, 0.999, 3e-16, 1e-13] if tier == 'thorough' else [])
    ndfs = [None, 1, 2, 30] + ([1000] if tier == 'thorough' else [])
    jobs = []
    for alpha, ndf in itertools.product(alphas, ndfs):
        do_shapes = tier == 'thorough' or (alpha, ndf) in ((0.01, None), (0.05, 30), (0.5, 1), (1e-18, None))
        jobs.append((tier, alpha, ndf, do_shapes))
    return pool.pmap(job, jobs, seed)


def replay(case):
    from valjean.gavroche.stat_tests.student import TestStudent
    alpha, ndf = case.get('alpha', 0.01), case.get('ndf')
    if 'bin(v1,e1,v2,e2)' in case:
        b = [float(x) for x in case['bin(v1,e1,v2,e2)']]
        scalar = case.get('path') == 'scalar'
        ds1 = _mk(b[0] if scalar else [b[0]], b[1] if scalar else [b[1]], () if scalar else None)
        ds2 = _mk(b[2] if scalar else [b[2]], b[3] if scalar else [b[3]], () if scalar else None)
        res = TestStudent(ds1, ds2, name='replay', alpha=alpha, ndf=ndf).evaluate()
        tref = ref_t(*b)
        exp = verdict_ref(ref_p(tref, ndf), alpha)
        pdec = res.test_pvalue()
        obs = {'t': repr(res.tstud[0]), 'p': repr(res.pvalue[0]), 'oracle': repr(res.oracles()), 'verdict': bool(res),
               'test_pvalue': repr(pdec), 'reference_t': tref, 'reference_verdict': exp}
        obs['violates'] = exp is not None and (bool(res) != exp or pdec is False or bool(np.all(pdec[0])) != exp)
        return obs
    return {'note': 'aggregate / relation case: re-run ./vf check C05', 'case': case, 'violates': False}
