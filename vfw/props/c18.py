"""C18 - diagnostic statistics count every task and every test result exactly once."""
import itertools

from ..core.report import Report
from ..core import pool
from . import results_kit as kit

LEVEL = 'model_checking'
ENGINE = 'E-input'
DESIGN_REF = '5/C18'
TECHNIQUE = ('bounded exhaustive enumeration of inputs (every tuple of <= 3 task statuses; every tuple of <= 3 tasks each without result or '
             'with 0-2 results of chosen verdict; every tuple of <= 3 results with verdict x label dictionaries x every label selection) '
             'through the real diagnostics classes and through the task_stats / test_stats task pipeline, against a recount by hand')
RULE = ('[label values incl. falsy ones (index 0, meal empty string); the by-labels family also with one test name shared by all results] ' +
        '(tasks) every tuple of 1-3 statuses over the 5 task statuses; (tests) every tuple of 1-3 tasks over {no result, [], [T], [F], '
        '[T,T], [T,F], [F,T], [F,F]}, with distinct test names, one shared test name, and one shared name under per-task labels; (labels) every tuple of 1-3 results over verdict x day in {d1, d2, absent} x meal in {m1, absent} x index in {7, absent}, '
        'with every selection of 1-2 labels, three permutations of all 3 labels and an unknown label; oracle: each task under its status exactly '
        'once, each result under success / failure by verdict exactly once, tasks without result under missing, per label combination '
        'OK + KO = total = number of results carrying all requested labels, nb_missing_labels = the others, verdict of the summary <=> '
        'everything observed succeeded; the same through the generated tasks (task_stats, test_stats, test_stats_by_labels) on a prepared '
        'environment; non-trivial = inputs with at least two items of different outcome or a missing label / result')
ASSUMPTIONS = ['the verdict of an empty summary (nothing observed) is reported, not judged (the statement does not fix it)',
               'a label absent from every result: the documented exception is the expected outcome',
               'small-scope: <= 3 tasks / results, 2 labels']
LEVEL_TEXT = ('All small collections of task statuses, of per-task result lists and of labelled results are summarised by the real '
              'TestStatsTasks / TestStatsTests / TestStatsTestsByLabels (directly and through the task factories) and recounted by hand: '
              'every item exactly once under the right heading, successes + failures = results carrying the requested labels, summary '
              'successful exactly when everything observed succeeded. Exhaustive over this alphabet.')
LEVEL_NOTE = 'hand recount as reference.'

STATUSES = ('DONE', 'FAILED', 'SKIPPED', 'WAITING', 'PENDING')
TEST_OPTS = (None, (), (True,), (False,), (True, True), (True, False), (False, True), (False, False))


def names(lst):
    return sorted(x.name for x in lst)


def job_tasks(_arg):
    from valjean.cosette.task import TaskStatus
    rep = Report()
    for num in (0, 1, 2, 3):
        for combo in itertools.product(STATUSES, repeat=num):
            case = {'family': 'tasks', 'statuses': combo}
            _, res = kit.build_stats_tasks(combo)
            rep.case(nontrivial=combo if len(set(combo)) > 1 else None, outcome=('tasks', bool(res)))
            for sta in STATUSES:
                exp = sorted(f'task{k}' for k, s in enumerate(combo) if s == sta)
                got = names(res.classify.get(TaskStatus[sta], []))
                if got != exp:
                    rep.violate(f'C18|tasks|classify|{sta}', f'{sta}: {got}, expected {exp}', case, size=num)
            if sum(len(v) for v in res.classify.values()) != num:
                rep.violate('C18|tasks|count', f'{sum(len(v) for v in res.classify.values())} entries for {num} tasks', case, size=num)
            if num == 0:
                rep.counters['empty_summary_not_judged'] += 1
                rep.extra['verdict_of_empty_task_summary'] = bool(res)
            elif bool(res) != all(s == 'DONE' for s in combo):
                rep.violate('C18|tasks|verdict', f'verdict {bool(res)} for statuses {combo}', case, size=num)
            if 1 <= num <= 2:
                pipeline_tasks(rep, combo, case)
    rep.sample({'family': 'tasks', 'statuses': ('DONE', 'FAILED', 'DONE')})
    return rep


def run_stats_task(stats_task, env):
    """Execute the generated create-test task and the evaluation task on a prepared environment."""
    from valjean.cosette.task import TaskStatus
    for dep in list(stats_task.depends_on) + list(stats_task.soft_depends_on):
        if dep.name not in env or env[dep.name].get('status') is None:
            upd, sta = dep.do(env, _config())
            env.apply(upd)
            env.set_status(dep, sta)
    upd, sta = stats_task.do(env, _config())
    assert sta == TaskStatus.DONE, sta
    return upd[stats_task.name]['result'][0]


def pipeline_tasks(rep, combo, case):
    from valjean.cosette.env import Env
    from valjean.cosette.task import TaskStatus, DelayTask
    from valjean.cosette.use import Use
    from valjean.gavroche.diagnostics.stats import task_stats
    Use._CACHE.clear()  # pylint: disable=protected-access
    tasks = [DelayTask(f'task{k}', 0) for k in range(len(combo))]
    env = Env({t.name: {'status': TaskStatus[s]} for t, s in zip(tasks, combo)})
    try:
        res = run_stats_task(task_stats(name='pipe', tasks=tasks), env)
    except Exception as exc:  # pylint: disable=broad-except
        rep.violate(f'C18|tasks|pipeline-raises|{type(exc).__name__}', f'task_stats pipeline raised {exc!r}', case)
        return
    rep.evaluations += 1
    for sta in STATUSES:
        exp = sorted(f'task{k}' for k, s in enumerate(combo) if s == sta)
        got = names(res.classify.get(TaskStatus[sta], []))
        if got != exp:
            rep.violate(f'C18|tasks|pipeline-classify|{sta}', f'through task_stats: {sta}: {got}, expected {exp}', case)


def job_tests(first):
    from valjean.gavroche.diagnostics.stats import TestOutcome
    rep = Report()
    for num in (1, 2, 3):
        for rest in itertools.product(TEST_OPTS, repeat=num - 1):
            combo = (first,) + rest
            # repeated names: the same comparison evaluated by several tasks (possibly under different labels) is still one
            # entry per evaluated result
            for naming in ('distinct', 'same', 'same-labelled'):
                case = {'family': 'tests', 'results per task (None = no result key)': combo, 'naming': naming}
                _, res = kit.build_stats_tests(combo, naming=naming)

                def tname(k, j, naming=naming):
                    return f'test{k}_{j}' if naming == 'distinct' else 'test'
                exp_ok = sorted(tname(k, j) for k, v in enumerate(combo) if v for j, x in enumerate(v) if x)
                exp_ko = sorted(tname(k, j) for k, v in enumerate(combo) if v for j, x in enumerate(v) if not x)
                exp_miss = sorted(f'task{k}' for k, v in enumerate(combo) if v is None)
                mixed = bool(exp_ok) + bool(exp_ko) + bool(exp_miss) > 1
                rep.case(nontrivial=(combo, naming) if mixed else None, outcome=('tests', naming, bool(res)))
                ntag = '' if naming == 'distinct' else f'|names={naming}'
                for outcome, exp in ((TestOutcome.SUCCESS, exp_ok), (TestOutcome.FAILURE, exp_ko), (TestOutcome.MISSING, exp_miss),
                                     (TestOutcome.NOT_A_TEST, [])):
                    got = names(res.classify.get(outcome, []))
                    if got != exp:
                        rep.violate(f'C18|tests|classify|{outcome.name}{ntag}', f'{outcome.name}: {got}, expected {exp}', case, size=num)
                nobs = len(exp_ok) + len(exp_ko) + len(exp_miss)
                if nobs == 0:
                    rep.counters['empty_summary_not_judged'] += 1
                elif bool(res) != (not exp_ko and not exp_miss):
                    rep.violate(f'C18|tests|verdict{ntag}', f'verdict {bool(res)}: successes {exp_ok}, failures {exp_ko}, missing {exp_miss}',
                                case, size=num)
    rep.sample({'family': 'tests', 'results per task': (first, (True, False))})
    return rep


# 'index' is a metadata key of every Tripoli-4 response, hence a natural test label (and the bookkeeping key of Browser)
# label values that are falsy (0, '') are values like any other: only an absent label is 'missing'
LABEL_OPTS = [(v, d, m, i) for v in (True, False) for d in ('d1', 'd2', None) for m in ('m1', '', None) for i in (None, 7, 0)]
SELECTIONS = [('day',), ('meal',), ('day', 'meal'), ('meal', 'day'), ('index',), ('day', 'index'), ('day', 'meal', 'index'), ('index', 'day', 'meal'),
              ('meal', 'index', 'day'), ('zz',), ('day', 'zz')]


def recount(combo, selection):
    """Reference: {label values tuple: [OK, KO]} over the results carrying all requested labels, and the number of the others."""
    groups, missing = {}, 0
    for verdict, day, meal, idx in combo:
        lab = {'day': day, 'meal': meal, 'index': idx}
        vals = tuple(lab.get(s) for s in selection)
        if any(v is None for v in vals):
            missing += 1
            continue
        groups.setdefault(vals, [0, 0])[0 if verdict else 1] += 1
    return groups, missing


def job_labels(first):
    from valjean.gavroche.diagnostics.stats import TestStatsTestsByLabelsException
    rep = Report()
    for num in (1, 2, 3, 4) if TIER[0] == 'thorough' else (1, 2, 3):
        for rest in itertools.product(LABEL_OPTS, repeat=num - 1):
            combo = (first,) + rest
            present = {'day' for _, d, _, _ in combo if d is not None} | {'meal' for _, _, m, _ in combo if m is not None} | \
                {'index' for _, _, _, i in combo if i is not None}
            for sel, naming in itertools.product(SELECTIONS, ('distinct', 'same')):
                if naming == 'same' and (num == 1 or len(sel) > 2):
                    continue        # the same named check evaluated by several tasks under different labels (1-2 label selections)
                case = {'family': 'labels', 'results (verdict, day, meal, index)': combo, 'by_labels': sel, 'naming': naming}
                expect_exc = not set(sel) <= present
                try:
                    _, res = kit.build_stats_labels(combo, by_labels=sel, naming=naming)
                    exc = None
                except TestStatsTestsByLabelsException as err:
                    exc, res = err, None
                except Exception as err:  # pylint: disable=broad-except
                    rep.violate(f'C18|labels|raises|{type(err).__name__}', f'raised {err!r}', case, size=num)
                    continue
                groups, missing = recount(combo, sel)
                rep.case(nontrivial=(combo, sel) if (missing or len(groups) > 1) else None,
                         outcome=('labels', 'exception' if exc else bool(res)))
                if expect_exc:
                    if exc is None:
                        rep.violate('C18|labels|unknown-label-accepted', f'label(s) {set(sel) - present} exist in no result but no exception was raised', case, size=num)
                    continue
                if exc is not None:
                    rep.violate('C18|labels|spurious-exception', f'all requested labels exist but {exc!r} was raised', case, size=num)
                    continue
                got = {tuple(c['labels']): (c['OK'], c['KO'], c['total']) for c in res.classify}
                if len(got) != len(res.classify):
                    rep.violate('C18|labels|duplicate-row', f'label combination listed twice: {res.classify}', case, size=num)
                exp = {k: (v[0], v[1], v[0] + v[1]) for k, v in groups.items()}
                if got != exp:
                    rep.violate(f'C18|labels|counts|nsel={len(sel)}' + ('' if naming == 'distinct' else '|names=same'), f'by {sel}: {got}, recount {exp}', case, size=num)
                if res.nb_missing_labels() != missing:
                    rep.violate('C18|labels|missing', f'nb_missing_labels {res.nb_missing_labels()}, recount {missing}', case, size=num)
                if groups and bool(res) != all(v[1] == 0 for v in groups.values()):
                    rep.violate('C18|labels|verdict', f'verdict {bool(res)} for {exp}', case, size=num)
                if list(res.oracles()) != [c['OK'] == c['total'] for c in res.classify]:
                    rep.violate('C18|labels|oracles', 'oracles() disagree with the counts', case, size=num)
    rep.sample({'family': 'labels', 'results (verdict, day, meal, index)': (first, (False, 'd1', None, None)), 'by_labels': ('day', 'meal')})
    return rep


def _call(job):
    return job[0](job[1])


TIER = ['quick']


def run(tier, seed):
    TIER[0] = tier
    jobs = [(job_tasks, None)]
    jobs += [(job_tests, first) for first in TEST_OPTS]
    jobs += [(job_labels, first) for first in LABEL_OPTS]
    return pool.pmap(_call, jobs, seed)


def replay(case):
    fam = case.get('family')
    if fam == 'tasks':
        _, res = kit.build_stats_tasks(tuple(case['statuses']))
        return {'classify': {k.name: names(v) for k, v in res.classify.items()}, 'verdict': bool(res), 'violates': False,
                'note': 'compare with the statuses by hand or re-run ./vf check C18'}
    if fam == 'labels':
        combo = tuple(tuple(x) for x in case['results (verdict, day, meal, index)'])
        sel = tuple(case['by_labels'])
        _, res = kit.build_stats_labels(combo, by_labels=sel)
        groups, missing = recount(combo, sel)
        got = {tuple(c['labels']): (c['OK'], c['KO'], c['total']) for c in res.classify}
        exp = {k: (v[0], v[1], v[0] + v[1]) for k, v in groups.items()}
        return {'classify': repr(got), 'recount': repr(exp), 'missing': (res.nb_missing_labels(), missing),
                'violates': got != exp or res.nb_missing_labels() != missing}
    return {'note': 're-run ./vf check C18', 'violates': False}


def _config():
    from valjean.config import Config
    return Config()
