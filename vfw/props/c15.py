"""C15 - generated tasks correspond one-to-one to what was asked for."""
import itertools
import os
import shutil
import tempfile

from ..core.report import Report
from ..core import pool, bfs

LEVEL = 'model_checking'
ENGINE = 'E-hist'
DESIGN_REF = '5/C15'
TECHNIQUE = ('explicit-state BFS over creation histories (sequences of wrapper / factory / statistics-task requests from a small alphabet) '
             'on the real Use / RunTaskFactory / stats helpers with the process-wide caches reset per history; every pair of requests '
             'of a history is judged (identity, distinctness, executed behaviour); exhaustive enumeration of small task lists for collect')
RULE = ('[stacked: every pair / triple of injections (task A|B x key result|other x positional|keyword) stacked on one function, executed] ' +
        'Use alphabet (13 requests differing from a base request in exactly one aspect: same-named other function, differently named '
        'function, two lambdas, injected task A/B, key result/other, positional/keyword, hard/soft, soft with task B, map with two same-named '
        'functions); factory alphabet (10 requests: extra args a/b, format kwargs, user name with args a/b, deps [A]/[B], soft deps, subprocess '
        'args, second factory with the same name); statistics tasks with equal names; every ordered pair of UseRun pipelines over 6 factories (generated / user-given name, different '
        'default keywords or arguments) x call keywords x extra args, collected and executed; BFS over all histories of length <= 2 (thorough 3), '
        'state = multiset of requests made + cache keys; for every ordered pair of requests in a history: identical request => identical '
        'task object, different request => different objects or an explicit error at the later request, and each returned task executed with '
        'do() on a prepared environment yields what its own request computes (function, injected tasks, keys; for factory tasks the command '
        'line, dependencies and soft dependencies); collect: every list of <= 3 tasks over hard/soft edges and duplicated names: closure '
        'exactly once each, ValueError iff two distinct tasks share a name; non-trivial = histories whose requests differ')
ASSUMPTIONS = ['Use._CACHE and the factory caches are the only process-wide state (they are reset per history and asserted empty)',
               'functions are compared by what they compute on the prepared environment',
               'small-scope: histories of <= 2 (3) requests']
LEVEL_TEXT = ('All histories of up to 2-3 requests over alphabets in which any two requests differ in exactly one aspect are replayed on the '
              'real wrappers and factories with fresh caches; every pair of requests must yield the same task iff the requests are identical, '
              'and every task must compute what its own request asked for. Task collection is checked on every small task list.')
LEVEL_NOTE = 'executed behaviour observed through task.do() on a prepared environment.'


# ------------------------------------------------------------------ Use requests
def env_and_tasks():
    from valjean.cosette.env import Env
    from valjean.cosette.task import TaskStatus, DelayTask
    ta, tb, tc = DelayTask('A', 0), DelayTask('B', 0), DelayTask('C', 0)
    env = Env({'A': {'status': TaskStatus.DONE, 'result': 'A-result', 'other': 'A-other'},
               'B': {'status': TaskStatus.DONE, 'result': 'B-result', 'other': 'B-other'},
               'C': {'status': TaskStatus.DONE, 'result': 'C-result', 'other': 'C-other'}})
    return env, {'A': ta, 'B': tb, 'C': tc}


def functions():
    def func(*args, **kwargs):
        return ('f1', args, tuple(sorted(kwargs.items())))
    f1 = func

    def func(*args, **kwargs):  # pylint: disable=function-redefined
        return ('f2', args, tuple(sorted(kwargs.items())))
    f2 = func

    def gunc(*args, **kwargs):
        return ('g', args, tuple(sorted(kwargs.items())))
    lam1 = lambda *a, **k: ('lam1', a, tuple(sorted(k.items())))  # noqa: E731  pylint: disable=unnecessary-lambda-assignment
    lam2 = lambda *a, **k: ('lam2', a, tuple(sorted(k.items())))  # noqa: E731  pylint: disable=unnecessary-lambda-assignment

    def post(arg):
        return ('h1', arg)
    h1 = post

    def post(arg):  # pylint: disable=function-redefined
        return ('h2', arg)
    h2 = post
    return {'f1': f1, 'f2': f2, 'g': gunc, 'lam1': lam1, 'lam2': lam2, 'h1': h1, 'h2': h2}


#            name        (func, task, key, kwarg, deps_type, map)
USE_REQS = {
    'base':      ('f1', 'A', 'result', None, 'hard', None),
    'same-name': ('f2', 'A', 'result', None, 'hard', None),
    'other-fn':  ('g', 'A', 'result', None, 'hard', None),
    'lambda1':   ('lam1', 'A', 'result', None, 'hard', None),
    'lambda2':   ('lam2', 'A', 'result', None, 'hard', None),
    'task-B':    ('f1', 'B', 'result', None, 'hard', None),
    'key-other': ('f1', 'A', 'other', None, 'hard', None),
    'keyword':   ('f1', 'A', 'result', 'x', 'hard', None),
    'soft':      ('f1', 'A', 'result', None, 'soft', None),
    'soft-B':    ('f1', 'B', 'result', None, 'soft', None),
    'soft-key':  ('f1', 'A', 'other', None, 'soft', None),
    'map-h1':    ('f1', 'A', 'result', None, 'hard', 'h1'),
    'map-h2':    ('f1', 'A', 'result', None, 'hard', 'h2'),
    # one wrapper object (keyword injection of A as x) shared by the history, used directly and re-decorated twice
    'inner':     ('g', 'A', 'result', 'x', 'hard', ('inner',)),
    'stack-l':   ('g', 'A', 'result', 'x', 'hard', ('stack', 'l', 'B')),
    'stack-r':   ('g', 'A', 'result', 'x', 'hard', ('stack', 'r', 'C')),
}


def doc_name(req):
    """Task name under the documented naming scheme: sorted hard-dependency names + '.' + function name
    (the function name alone for soft dependencies); a mapped function is a further task on top."""
    fname, tname, _key, _kwarg, dtype, mapped = USE_REQS[req]
    fnames = {'f1': 'func', 'f2': 'func', 'g': 'gunc', 'lam1': '<lambda>', 'lam2': '<lambda>'}
    deps = [tname]
    if isinstance(mapped, tuple) and mapped[0] == 'stack':
        deps.append(mapped[2])
    base = (','.join(sorted(deps)) + '.' if dtype == 'hard' else '') + fnames[fname]
    if mapped and not isinstance(mapped, tuple):
        return base + '.post'
    return base


def cause(one, two):
    """'name-scheme' if the documented naming scheme gives both requests (or their inner tasks) the same name."""
    na, nb = doc_name(one), doc_name(two)
    inner = lambda n: n[:-5] if n.endswith('.post') else n  # noqa: E731  pylint: disable=unnecessary-lambda-assignment
    return 'name-scheme' if (na == nb or inner(na) == inner(nb)) else 'other'


def aspect(one, two):
    """Which aspect distinguishes two Use requests."""
    names = ('function', 'injected-task', 'key', 'positional-vs-keyword', 'deps-type', 'mapped-function')
    ra, rb = USE_REQS[one], USE_REQS[two]
    if isinstance(ra[5], tuple) and isinstance(rb[5], tuple):
        return 'stacked-keyword-injection'
    diff = [n for n, x, y in zip(names, ra, rb) if x != y]
    if diff == ['function']:
        fa, fb = ra[0], rb[0]
        if {fa, fb} == {'f1', 'f2'}:
            return 'function-same-name'
        if fa.startswith('lam') and fb.startswith('lam'):
            return 'two-lambdas'
        return 'function'
    if 'soft' in (ra[4], rb[4]) and ra[4] == rb[4]:
        return '+'.join(diff) + '|soft'
    return '+'.join(diff)


def make_use(req, funcs, tasks, shared=None):
    from valjean.cosette.use import Use
    fname, tname, key, kwarg, dtype, mapped = USE_REQS[req]
    if isinstance(mapped, tuple):
        if shared.get('inner') is None:
            shared['inner'] = Use.from_func(func=funcs[fname], task=tasks[tname], key=key, kwarg=kwarg, deps_type=dtype)
        if mapped[0] == 'inner':
            return shared['inner'].get_task()
        return Use.from_func(func=shared['inner'], task=tasks[mapped[2]], key='result', kwarg=mapped[1]).get_task()
    use = Use.from_func(func=funcs[fname], task=tasks[tname], key=key, kwarg=kwarg, deps_type=dtype)
    if mapped:
        use = use.map(funcs[mapped])
    return use.get_task()


def expected_use(req, funcs, env):
    fname, tname, key, kwarg, _dtype, mapped = USE_REQS[req]
    val = env[tname][key]
    if isinstance(mapped, tuple):
        kwargs = {kwarg: val}
        if mapped[0] == 'stack':
            kwargs[mapped[1]] = env[mapped[2]]['result']
        return funcs[fname](**kwargs)
    res = funcs[fname](**{kwarg: val}) if kwarg else funcs[fname](val)
    if mapped:
        res = funcs[mapped](res)
    return res


def run_use_task(task, env, req):
    """Execute a Use task (and, for map requests, the inner task first)."""
    from valjean.config import Config
    from valjean.cosette.task import TaskStatus
    conf = Config()
    work = type(env)(dict(env.items()))
    for dep in list(task.depends_on) + list(task.soft_depends_on):
        if dep.name not in work:
            upd, _ = dep.do(work, conf)
            work.apply(upd)
            work.set_status(dep, TaskStatus.DONE)
    upd, _ = task.do(work, conf)
    return upd[task.name]['result']


def job_use(args):
    depth, first = args
    from valjean.cosette.use import Use
    rep = Report()
    funcs = functions()
    names = list(USE_REQS)

    def build(hist):
        Use._CACHE.clear()  # pylint: disable=protected-access
        env, tasks = env_and_tasks()
        made = []
        shared = {}
        for req in ((first,) + tuple(hist)):
            try:
                made.append((req, make_use(req, funcs, tasks, shared), None))
            except Exception as exc:  # pylint: disable=broad-except
                made.append((req, None, exc))
        return env, tasks, made

    def canon(obj):
        _, _, made = obj
        return (tuple(sorted(r for r, _, _ in made)), tuple(sorted(Use._CACHE)))  # pylint: disable=protected-access

    def check(hist, obj):
        env, _tasks, made = obj
        out = []
        for (i, (r1, t1, e1)), (j, (r2, t2, e2)) in itertools.combinations(enumerate(made), 2):
            if j != len(made) - 1:
                continue            # pairs not involving the newest request were judged in the parent state
            if r1 == r2:
                if e1 is None and e2 is None and t1 is not t2:
                    out.append((f'C15|use|identical-request-new-task|{r1}', f'the same request {r1!r} made twice gives two task objects'))
                continue
            if e2 is not None:
                rep.counters['explicit_error_at_second_request'] += 1
                continue            # an explicit error is an accepted answer
            if e1 is None and t1 is t2:
                out.append((f'C15|use|shared-task|cause={cause(r1, r2)}|differs={aspect(r1, r2)}',
                            f'requests {r1!r} {USE_REQS[r1]} and {r2!r} {USE_REQS[r2]} silently share the task {t1.name!r}'))
        req, task, err = made[-1]
        if err is None:
            try:
                got = run_use_task(task, env, req)
                exp = expected_use(req, funcs, env)
                if got != exp:
                    prev = [r for r, t, _ in made[:-1] if t is task and r != req]
                    if not prev:        # a map request: the inner task may be the shared one
                        inner = set(task.depends_on) | set(task.soft_depends_on)
                        prev = [r for r, t, _ in made[:-1] if r != req and t is not None
                                and (t in inner or (set(t.depends_on) & inner - set(_tasks.values())) or task in t.depends_on)]
                    how = (f'cause={cause(prev[0], req)}|differs=' + aspect(prev[0], req)) if prev else 'not-shared|after=' + '+'.join(sorted({r for r, _, _ in made[:-1]}) or ['nothing'])
                    out.append((f'C15|use|wrong-behaviour|{how}',
                                f'task for {req!r} {USE_REQS[req]} computed {got!r}, its own request gives {exp!r} (history {[r for r, _, _ in made]})'))
                exp_deps = {USE_REQS[req][1]} if not USE_REQS[req][5] else None
                if isinstance(USE_REQS[req][5], tuple):
                    exp_deps = {USE_REQS[req][1]} | ({USE_REQS[req][5][2]} if USE_REQS[req][5][0] == 'stack' else set())
                if exp_deps is not None:
                    hard = {d.name for d in task.depends_on}
                    soft = {d.name for d in task.soft_depends_on}
                    want_h, want_s = (exp_deps, set()) if USE_REQS[req][4] == 'hard' else (set(), exp_deps)
                    if (hard, soft) != (want_h, want_s):
                        prev = [r for r, t, _ in made[:-1] if t is task and r != req]
                        how = (f'cause={cause(prev[0], req)}|differs=' + aspect(prev[0], req)) if prev else f'not-shared|request={req}'
                        out.append((f'C15|use|wrong-dependencies|{how}', f'task for {req!r}: deps {hard}, soft deps {soft}; requested {want_h} / {want_s}'))
            except Exception as exc:  # pylint: disable=broad-except
                out.append((f'C15|use|do-raises|{type(exc).__name__}|request={req}', f'executing the task of {req!r} raised {exc!r}'))
        return out

    bfs.search(build, lambda h, o: names, canon, check, depth, rep, label=f'use:first={first}', prune_violating=False)
    rep.nontrivial_count += rep.transitions
    rep.outcomes[('use', first)] += rep.states
    rep.sample({'use history': [first, 'same-name'], 'requests': {first: USE_REQS[first], 'same-name': USE_REQS['same-name']}})
    return rep


# ------------------------------------------------------------------ factory requests
FAC_REQS = {
    'a':          dict(extra_args=['a']),
    'b':          dict(extra_args=['b']),
    'a-greet':    dict(extra_args=['a'], greeting='hello'),
    'a-greet2':   dict(extra_args=['a'], greeting='bye'),
    'user-a':     dict(name='user', extra_args=['a']),
    'user-b':     dict(name='user', extra_args=['b']),
    'a-depA':     dict(extra_args=['a'], deps=['A']),
    'a-depB':     dict(extra_args=['a'], deps=['B']),
    'a-softA':    dict(extra_args=['a'], soft_deps=['A']),
    'a-subproc':  dict(extra_args=['a'], subprocess_args={'env': {'LC_ALL': 'C', 'VF_MARK': '1'}}),
}


def fac_cause(one, two):
    """'name-scheme' if the documented factory naming (hash of factory name, extra args and format kwargs, or the user name)
    gives both requests the same task name."""
    def key(req):
        spec = FAC_REQS[req]
        if spec.get('name'):
            return ('user', spec['name'])
        return ('hash', tuple(spec.get('extra_args', ())), tuple(sorted((k, v) for k, v in spec.items()
                                                                         if k not in ('extra_args', 'deps', 'soft_deps', 'subprocess_args', 'name'))))
    return 'name-scheme' if key(one) == key(two) else 'other'


def fac_aspect(one, two):
    ra, rb = FAC_REQS[one], FAC_REQS[two]
    keys = sorted(set(ra) | set(rb))
    diff = [k for k in keys if ra.get(k) != rb.get(k)]
    tag = '+'.join(diff)
    if ra.get('name') and ra.get('name') == rb.get('name'):
        tag += '|under-user-name'
    return tag


def job_factory(args):
    depth, first = args
    from valjean.cosette.run import RunTaskFactory
    from valjean.config import Config
    rep = Report()
    names = list(FAC_REQS)
    scratch = tempfile.mkdtemp(prefix='vf_c15_')

    def build(hist):
        env, tasks = env_and_tasks()
        fac = RunTaskFactory.from_executable('/bin/echo', name='echo', default_args=['{greeting}'], greeting='hi')
        made = []
        for req in ((first,) + tuple(hist)):
            spec = dict(FAC_REQS[req])
            for key in ('deps', 'soft_deps'):
                if key in spec:
                    spec[key] = [tasks[n] for n in spec[key]]
            try:
                made.append((req, fac.make(**spec), None))
            except Exception as exc:  # pylint: disable=broad-except
                made.append((req, None, exc))
        return env, fac, made

    def canon(obj):
        _, fac, made = obj
        return (tuple(sorted(r for r, _, _ in made)), tuple(sorted(fac.cache)))

    def check(hist, obj):
        env, _fac, made = obj
        out = []
        for (_i, (r1, t1, e1)), (j, (r2, t2, e2)) in itertools.combinations(enumerate(made), 2):
            if j != len(made) - 1:
                continue
            if r1 == r2:
                if e1 is None and e2 is None and t1 is not t2:
                    out.append((f'C15|factory|identical-request-new-task|{r1}', f'the same request {r1!r} made twice gives two task objects'))
                continue
            if e2 is not None:
                rep.counters['explicit_error_at_second_request'] += 1
                continue
            if e1 is None and t1 is t2:
                out.append((f'C15|factory|shared-task|cause={fac_cause(r1, r2)}|differs={fac_aspect(r1, r2)}',
                            f'requests {r1!r} {FAC_REQS[r1]} and {r2!r} {FAC_REQS[r2]} silently share the task {t1.name!r}'))
        req, task, err = made[-1]
        if err is None:
            spec = FAC_REQS[req]
            hard, soft = {d.name for d in task.depends_on}, {d.name for d in task.soft_depends_on}
            if hard != set(spec.get('deps', [])) or soft != set(spec.get('soft_deps', [])):
                prev = [r for r, t, _ in made[:-1] if t is task and r != req]
                how = (f'cause={fac_cause(prev[0], req)}|differs=' + fac_aspect(prev[0], req)) if prev else 'not-shared'
                out.append((f'C15|factory|wrong-dependencies|{how}', f'task for {req!r}: deps {hard} / soft {soft}, requested {spec.get("deps", [])} / {spec.get("soft_deps", [])}'))
            root = tempfile.mkdtemp(dir=scratch)
            conf = Config()
            conf.set('path', 'output-root', root)
            try:
                upd, _ = task.do(env, conf)
                with open(upd[task.name]['stdout'], encoding='utf-8') as fil:
                    got = fil.read().strip()
                exp = ' '.join([spec.get('greeting', 'hi')] + spec['extra_args'])
                if got != exp:
                    prev = [r for r, t, _ in made[:-1] if t is task and r != req]
                    how = (f'cause={fac_cause(prev[0], req)}|differs=' + fac_aspect(prev[0], req)) if prev else 'not-shared'
                    out.append((f'C15|factory|wrong-command|{how}',
                                f'task for {req!r} ran a command printing {got!r}, its own request prints {exp!r}'))
            except Exception as exc:  # pylint: disable=broad-except
                out.append((f'C15|factory|do-raises|{type(exc).__name__}|request={req}', f'executing the task of {req!r} raised {exc!r}'))
            shutil.rmtree(root, ignore_errors=True)
        return out

    try:
        bfs.search(build, lambda h, o: names, canon, check, depth, rep, label=f'factory:first={first}', prune_violating=False)
    finally:
        shutil.rmtree(scratch, ignore_errors=True)
    rep.nontrivial_count += rep.transitions
    rep.outcomes[('factory', first)] += rep.states
    rep.sample({'factory history': [first, 'a-depA'], 'requests': {first: repr(FAC_REQS[first])}})
    return rep


# ------------------------------------------------------------------ several factories feeding wrappers (UseRun pipelines)
PIPE_FACS = {
    # key: (factory name or None = generated, default_args, factory-level default kwargs)
    'hi':        (None, ['{greeting}'], {'greeting': 'hi'}),
    'bye':       (None, ['{greeting}'], {'greeting': 'bye'}),
    'named-hi':  ('fac', ['{greeting}'], {'greeting': 'hi'}),
    'named-bye': ('fac', ['{greeting}'], {'greeting': 'bye'}),
    'named-x':   ('fac', ['x', '{greeting}'], {'greeting': 'hi'}),      # the user gave two different factories one name
    'other-exe': (None, ['-n', '{greeting}'], {'greeting': 'hi'}),
}
PIPE_REQS = [(fac, tuple(sorted(kw.items())), extra) for fac in PIPE_FACS for kw in ({}, {'greeting': 'yo'}) for extra in ((), ('a',))]


def pipe_doc_name(req):
    """What the documented naming scheme hashes: factory name (generated from path and default args when not given), extra
    arguments and the format keywords actually used (factory defaults updated by the call)."""
    fac, kws, extra = req
    fname, dargs, defaults = PIPE_FACS[fac]
    merged = dict(defaults)
    merged.update(dict(kws))
    return (fname if fname else ('generated', tuple(dargs)), tuple(extra), tuple(sorted(merged.items())))


def pipe_expected(req):
    fac, kws, extra = req
    _, dargs, defaults = PIPE_FACS[fac]
    merged = dict(defaults)
    merged.update(dict(kws))
    words = [a.format(**merged) for a in dargs] + list(extra)
    newline = not (words and words[0] == '-n')
    return ' '.join(w for w in words if w != '-n') + ('\n' if newline else '')


def slurp(result):
    with open(result, encoding='utf-8') as fil:
        return fil.read()


def job_pipes(args):
    """Histories of pipeline requests UseRun.from_factory(F).map(slurp)(**kw) applied to a final function: every pipeline, executed,
    must read the output of ITS command line."""
    (first,) = args
    from valjean.cosette.run import RunTaskFactory
    from valjean.cosette.use import Use, UseRun
    from valjean.cosette.task import close_dependency_graph
    from valjean.cosette.env import Env
    from valjean.cambronne.common import check_unique_task_names
    from valjean.config import Config
    rep = Report()
    scratch = tempfile.mkdtemp(prefix='vf_c15p_')

    def final(text):
        return ('final', text)

    def execute(task):
        root = tempfile.mkdtemp(dir=scratch)
        conf = Config()
        conf.set('path', 'output-root', root)
        env = Env()
        order = []

        def visit(tsk):
            if tsk not in order:
                for dep in sorted(tsk.depends_on | tsk.soft_depends_on, key=lambda t: t.name):
                    visit(dep)
                order.append(tsk)
        visit(task)
        for tsk in order:
            upd, status = tsk.do(env, conf)
            env.apply(upd)
            env.set_status(tsk, status)
        res = env[task.name]['result']
        shutil.rmtree(root, ignore_errors=True)
        return res

    try:
        for second in PIPE_REQS:
            hist = (first, second)
            Use._CACHE.clear()  # pylint: disable=protected-access
            facs = {}
            made = []
            err = None
            for req in hist:
                fkey, kws, extra = req
                if fkey not in facs:
                    fname, dargs, defaults = PIPE_FACS[fkey]
                    facs[fkey] = RunTaskFactory.from_executable('/bin/echo', name=fname, default_args=list(dargs), **defaults)
                try:
                    deco = UseRun.from_factory(facs[fkey]).map(slurp)(extra_args=list(extra), **dict(kws))
                    made.append(deco(final).get_task())
                except Exception as exc:  # pylint: disable=broad-except
                    err = exc
                    break
            case = {'pipelines': [list(map(repr, h)) for h in hist]}
            same = first == second
            rep.case(nontrivial=repr(hist) if not same else None, outcome=('pipes', 'error' if err else (made[0] is made[1])))
            if err is not None:
                rep.counters['explicit_error_at_second_pipeline'] += 1
                continue
            try:
                check_unique_task_names(close_dependency_graph(made))
            except ValueError:
                rep.counters['explicit_duplicate_name_error_at_collection'] += 1
                continue
            cause = 'name-scheme' if pipe_doc_name(first) == pipe_doc_name(second) else 'other'
            differs = '+'.join(n for n, a, b in (('factory', first[0], second[0]), ('kwargs', first[1], second[1]),
                                                 ('extra_args', first[2], second[2])) if a != b) or 'nothing'
            for req, task in zip(hist, made):
                try:
                    got = execute(task)
                except Exception as exc:  # pylint: disable=broad-except
                    rep.violate(f'C15|factory|pipeline-raises|{type(exc).__name__}|cause={cause}|differs={differs}',
                                f'executing the pipeline of {req!r} raised {exc!r}', case)
                    continue
                exp = ('final', pipe_expected(req))
                if got != exp:
                    rep.violate(f'C15|factory|pipeline-wrong-command|cause={cause}|differs={differs}',
                                f'pipeline {req!r} after {first!r}: computed {got!r}, its own command line gives {exp!r}', case)
            if same and made[0] is not made[1]:
                rep.violate('C15|factory|pipeline-identical-request-new-task', f'{first!r} requested twice gives two tasks', case)
    finally:
        shutil.rmtree(scratch, ignore_errors=True)
    rep.sample({'pipelines': [repr(first), repr(PIPE_REQS[5])]})
    return rep


# ------------------------------------------------------------------ several injections into one function
def job_stacked(_arg):
    """Every pair (and triple) of injections stacked on one function - injected task in {A, B}, key in {result, other}, positional
    or keyword - executed: each parameter must receive the requested key of the requested task (the same task may be injected
    several times with different keys)."""
    from valjean.cosette.use import Use
    rep = Report()

    def func(*args, **kwargs):
        return (args, tuple(sorted(kwargs.items())))

    single = [(t, k, kw) for t in ('A', 'B') for k in ('result', 'other') for kw in (None, 'kw')]
    for depth in (2, 3):
        for combo in itertools.product(single, repeat=depth):
            if depth == 3 and combo[0][0] != 'A':
                continue                                # by symmetry of the task names
            Use._CACHE.clear()  # pylint: disable=protected-access
            env, tasks = env_and_tasks()
            case = {'injections (task, key, keyword?) innermost first': [list(c) for c in combo]}
            names = [None if kw is None else f'p{i}' for i, (_, _, kw) in enumerate(combo)]
            try:
                use = func
                for (tname, key, _), kwarg in zip(combo, names):
                    use = Use.from_func(func=use, task=tasks[tname], key=key, kwarg=kwarg)
                task = use.get_task()
                got = run_use_task(task, env, None)
            except Exception as exc:  # pylint: disable=broad-except
                rep.violate(f'C15|stacked|raises|{type(exc).__name__}', f'{combo}: {exc!r}', case, size=depth)
                continue
            same_task = len({c[0] for c in combo}) < len(combo)
            rep.case(nontrivial=repr(combo) if same_task else None, outcome=('stacked', depth, same_task))
            exp_kw = tuple(sorted((kwarg, env[tname][key]) for (tname, key, _), kwarg in zip(combo, names) if kwarg))
            exp_pos = sorted(env[tname][key] for (tname, key, _), kwarg in zip(combo, names) if not kwarg)
            if got[1] != exp_kw or sorted(got[0]) != exp_pos:
                how = 'same-task-twice' if same_task else 'distinct-tasks'
                rep.violate(f'C15|stacked|wrong-arguments|{how}', f'injections {combo}: the function received positional {got[0]} / keywords {got[1]}, '
                            f'requested positional {exp_pos} (any order) / keywords {exp_kw}', case, size=depth)
            want = {c[0] for c in combo}
            if {d.name for d in task.depends_on} != want:
                rep.violate('C15|stacked|wrong-dependencies', f'injections {combo}: depends on {[d.name for d in task.depends_on]}', case, size=depth)
    rep.sample({'injections (task, key, keyword?) innermost first': [['A', 'result', None], ['A', 'other', 'kw']]})
    return rep


COLLECT_JOB_FILE = '''"""Job file of the C15 collect check: job(spec) builds tasks t0..tn-1 named spec['names'] with the hard / soft edges of
spec['edges'] and returns the tasks spec['roots']."""
import json

from valjean.cosette.task import DelayTask


def job(spec):
    spec = json.loads(spec)
    tasks = [DelayTask(name, 0) for name in spec['names']]
    for (i, j), kind in spec['edges']:
        (tasks[i].depends_on if kind == 'h' else tasks[i].soft_depends_on).add(tasks[j])
    return [tasks[r] for r in spec['roots']]
'''


# ------------------------------------------------------------------ statistics helpers and collect
def job_misc(_arg):
    from valjean.cosette.use import Use
    from valjean.cosette.task import DelayTask, close_dependency_graph
    from valjean.cambronne.common import check_unique_task_names, collect_tasks
    from valjean.gavroche.diagnostics.stats import task_stats, test_stats, test_stats_by_labels
    import json
    rep = Report()
    jobdir = tempfile.mkdtemp(prefix='vf_c15j_')
    jobfile = os.path.join(jobdir, 'job_c15.py')
    with open(jobfile, 'w', encoding='utf-8') as fil:
        fil.write(COLLECT_JOB_FILE)
    makers = {'task_stats': lambda n, t: task_stats(name=n, tasks=t),
              'test_stats': lambda n, t: test_stats(name=n, tasks=t),
              'by_labels': lambda n, t: test_stats_by_labels(name=n, tasks=t, by_labels=('day',))}
    for (k1, m1), (k2, m2) in itertools.product(makers.items(), repeat=2):
        for same_tasks in (True, False):
            Use._CACHE.clear()  # pylint: disable=protected-access
            ta, tb = DelayTask('A', 0), DelayTask('B', 0)
            one = m1('summary', [ta])
            try:
                two = m2('summary', [ta] if same_tasks else [tb])
            except Exception:  # pylint: disable=broad-except
                rep.counters['explicit_error_at_second_request'] += 1
                continue
            identical = k1 == k2 and same_tasks
            rep.case(nontrivial=(k1, k2, same_tasks) if not identical else None, outcome=('stats', one is two))
            inner1 = next(iter(one.depends_on | one.soft_depends_on), None)
            inner2 = next(iter(two.depends_on | two.soft_depends_on), None)
            if not identical and (one is two or inner1 is inner2):
                what = 'kind' if k1 != k2 else 'observed-tasks'
                rep.violate(f'C15|stats|shared-task|cause=name-scheme|differs={what}', f'{k1}(name="summary", tasks=[A]) and {k2}(name="summary", tasks=[{"A" if same_tasks else "B"}]) '
                            f'silently share the task {getattr(inner1, "name", None)!r}', {'first': k1, 'second': k2, 'same tasks': same_tasks})
    # collect: closure and duplicate names
    for n in (1, 2, 3):
        for names_ in itertools.product('xy', repeat=n):
            pairs = [(i, j) for i in range(n) for j in range(i)]
            for kinds in itertools.product((None, 'h', 's'), repeat=len(pairs)):
                tasks = [DelayTask(nm, 0) for nm in names_]
                for (i, j), kind in zip(pairs, kinds):
                    if kind == 'h':
                        tasks[i].depends_on.add(tasks[j])
                    elif kind == 's':
                        tasks[i].soft_depends_on.add(tasks[j])
                for roots in itertools.chain.from_iterable(itertools.combinations(range(n), r) for r in range(1, n + 1)):
                    case = {'names': names_, 'edges': [(p, k) for p, k in zip(pairs, kinds) if k], 'job returns': roots}
                    reach = set(roots)
                    todo = list(roots)
                    while todo:
                        cur = todo.pop()
                        for (i, j), kind in zip(pairs, kinds):
                            if kind and i == cur and j not in reach:
                                reach.add(j)
                                todo.append(j)
                    got = close_dependency_graph([tasks[r] for r in roots])
                    rep.case(nontrivial=repr(case) if len(reach) > len(roots) else None, outcome=('collect', len(reach)))
                    if sorted(map(id, got)) != sorted(id(tasks[i]) for i in reach):
                        rep.violate('C15|collect|closure', f'closure of {roots} gives {[t.name for t in got]}, reference {sorted(reach)}', case, size=n)
                    dup = len({names_[i] for i in reach}) < len(reach)
                    try:
                        check_unique_task_names(got)
                        raised = False
                    except ValueError:
                        raised = True
                    if raised != dup:
                        rep.violate(f'C15|collect|duplicate-names|expected-error={dup}', f'tasks {[names_[i] for i in sorted(reach)]}: ValueError raised={raised}', case, size=n)
                    # the same through the entry point of the commands: collect_tasks(job file)
                    spec = json.dumps({'names': names_, 'edges': [(p, k) for p, k in zip(pairs, kinds) if k], 'roots': roots})
                    try:
                        got2 = collect_tasks(jobfile, [spec], {})
                        raised2 = False
                    except ValueError:
                        got2, raised2 = [], True
                    rep.evaluations += 1
                    if raised2 != dup:
                        rep.violate(f'C15|collect|job-file|duplicate-names|expected-error={dup}',
                                    f'collect_tasks: tasks {[names_[i] for i in sorted(reach)]} (job() returns {roots}): ValueError raised={raised2}', case, size=n)
                    elif not dup and sorted(t.name for t in got2) != sorted(names_[i] for i in reach):
                        rep.violate('C15|collect|job-file|closure', f'collect_tasks returns {[t.name for t in got2]}, reference {sorted(names_[i] for i in reach)}', case, size=n)
    rep.sample({'collect': {'names': ('x', 'y', 'x'), 'edges': [((1, 0), 'h'), ((2, 1), 's')], 'job returns': (2,)}})
    shutil.rmtree(jobdir, ignore_errors=True)
    return rep


def _call(job):
    return job[0](job[1])


def run(tier, seed):
    depth = 2 if tier == 'quick' else 3      # + the first request fixed per job
    jobs = [(job_use, (depth, first)) for first in USE_REQS]
    jobs += [(job_factory, (depth, first)) for first in FAC_REQS]
    jobs.append((job_misc, None))
    jobs.append((job_stacked, None))
    jobs += [(job_pipes, (first,)) for first in PIPE_REQS]
    rep = pool.pmap(_call, jobs, seed)
    rep.extra['history_length'] = depth + 1
    return rep


def replay(case):
    from valjean.cosette.use import Use
    hist = case.get('history')
    label = case.get('label', '')
    if hist is None or not label:
        return {'note': 're-run ./vf check C15', 'violates': False}
    first = label.split('first=')[1]
    reqs = [first] + [h if isinstance(h, str) else h[0] for h in hist]
    funcs = functions()
    if label.startswith('use'):
        Use._CACHE.clear()  # pylint: disable=protected-access
        env, tasks = env_and_tasks()
        made = [make_use(r, funcs, tasks) for r in reqs]
        out = {'requests': {r: USE_REQS[r] for r in reqs}, 'task names': [t.name for t in made],
               'same object': [[a is b for b in made] for a in made],
               'computed': [repr(run_use_task(t, env, r)) for r, t in zip(reqs, made)],
               'expected': [repr(expected_use(r, funcs, env)) for r in reqs]}
        out['violates'] = out['computed'] != out['expected'] or any(a is b and ra != rb for (ra, a), (rb, b) in itertools.combinations(zip(reqs, made), 2))
        return out
    return {'note': 'factory history: re-run ./vf check C15', 'requests': reqs, 'violates': False}
