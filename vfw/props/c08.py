"""C08 - dataset arithmetic propagates uncorrelated errors and keeps datasets well formed."""
import itertools
import math
from collections import OrderedDict

import numpy as np

from ..core.report import Report
from ..core import pool, bfs

LEVEL = 'model_checking'
ENGINE = 'E-input'
DESIGN_REF = '5/C08'
TECHNIQUE = ('bounded exhaustive enumeration of operands (every cell combination over a value/error alphabet, every shape x bins kind x '
             'right-operand kind) through the real Dataset operators against scalar error-propagation formulas, plus explicit-state BFS '
             'over chains of operations/copies/masks/squeezes with a plain-numpy reference model and snapshots of every live operand')
RULE = ('(cells) every (v1, e1, v2, e2) over values {-2, 0, 1.5, 3} x errors {0, 0.1, 1} for + - * / between datasets (array path and '
        'scalar path) and every (v, e, c) with constants c in {-2, -1, 0.5, 3, 0} for dataset-with-number and dataset-with-array; '
        '(shapes) shapes (), (1,), (3,), (2,2), (1,2,1) x bins {none, edges, centres, string-labelled centres} x right operand {dataset '
        'with the same bins, dataset without bins, ndarray, int, float} x 4 operations: result well formed, bins of the left operand, '
        'operands unchanged; (chains) BFS over all sequences of <= 3 steps from {binary op between two live datasets, op '
        'with a constant, copy, mask, squeeze}: a state is the snapshot of all live datasets; after every step the new dataset equals '
        'the reference model, every older dataset is bit-for-bit unchanged, errors are >= 0 or NaN, a copy shares no memory with its '
        'original and writing into it leaves the original unchanged; non-trivial = cells with a zero or a negative ingredient, and '
        'chains of length >= 2')
ASSUMPTIONS = ['numpy arithmetic trusted; reference error of products/quotients computed from relative errors where both values are non-zero',
               'division by a zero value: only "error is not finite-negative" is compared (formula undefined there)',
               'squeeze() of a dataset without bins is outside the quantifier (bins given as edges or centres)']
LEVEL_TEXT = ('All 144 cell combinations x 4 operations between datasets and all 12 x 5 cell/constant combinations are evaluated through '
              'the array and scalar paths and compared with independently written first-order formulas (incl. sign of the error); every '
              'shape x bins kind x right-operand kind is checked for well-formedness, kept bins and untouched operands; chains of <= 3 '
              'operations are explored breadth-first with a numpy reference model, bit-for-bit snapshots of all live datasets and an '
              'aliasing test of copies.')
LEVEL_NOTE = 'small-scope on shapes (<= 4 cells) and chain length; floating-point comparison at rtol 1e-12.'

VALS = [-2.0, 0.0, 1.5, 3.0]
ERRS = [0.0, 0.1, 1.0]
CONSTS = [-2, -1.0, 0.5, 3, 0]
OPS = ['+', '-', '*', '/']


def apply_op(op, left, right):
    if op == '+':
        return left + right
    if op == '-':
        return left - right
    if op == '*':
        return left * right
    return left / right


# ------------------------------------------------------------------ scalar reference formulas
def ref_cell(op, v1, e1, v2, e2):
    """(value, error) of one cell, dataset with dataset; error None = not judged (formula undefined)."""
    if op == '+':
        return v1 + v2, math.sqrt(e1 * e1 + e2 * e2)
    if op == '-':
        return v1 - v2, math.sqrt(e1 * e1 + e2 * e2)
    if op == '*':
        val = v1 * v2
        if v1 != 0 and v2 != 0:
            return val, abs(val) * math.sqrt((e1 / v1) ** 2 + (e2 / v2) ** 2)
        return val, abs(e1 * v2) if v1 == 0 and v2 != 0 else (abs(e2 * v1) if v2 == 0 and v1 != 0 else 0.0)
    if v2 == 0:
        val = math.nan if v1 == 0 else math.copysign(math.inf, v1)
        return val, None
    val = v1 / v2
    if v1 != 0:
        return val, abs(val) * math.sqrt((e1 / v1) ** 2 + (e2 / v2) ** 2)
    return val, e1 / abs(v2)


def ref_const(op, val, err, con):
    if op == '+':
        return val + con, err
    if op == '-':
        return val - con, err
    if op == '*':
        return val * con, abs(con) * err
    if con == 0:
        return (math.nan if val == 0 else math.copysign(math.inf, val)), None
    return val / con, err / abs(con)


def close(a, b, rtol=1e-12):
    a, b = float(a), float(b)
    if math.isnan(a) or math.isnan(b):
        return math.isnan(a) and math.isnan(b)
    if math.isinf(a) or math.isinf(b):
        return a == b
    return abs(a - b) <= rtol * max(abs(a), abs(b)) + 1e-300


def sgn(x):
    return 'neg' if x < 0 else ('0' if x == 0 else 'pos')


# ------------------------------------------------------------------ snapshots
def snap_arr(arr):
    arr = np.asarray(arr) if not isinstance(arr, np.ma.MaskedArray) else arr
    if isinstance(arr, np.ma.MaskedArray):
        return ('ma', arr.dtype.str, arr.shape, np.ma.getdata(arr).tobytes(), np.ma.getmaskarray(arr).tobytes())
    return ('nd', arr.dtype.str, arr.shape, arr.tobytes())


def snap(dset):
    return (snap_arr(dset.value), snap_arr(dset.error),
            tuple((k, snap_arr(v)) for k, v in dset.bins.items()), dset.name, dset.what)


def wellformed(dset):
    """Constructor invariants, re-checked from outside."""
    probs = []
    if np.shape(dset.value) != np.shape(dset.error):
        probs.append(f'value shape {np.shape(dset.value)} != error shape {np.shape(dset.error)}')
    if dset.bins:
        if len(dset.bins) != np.ndim(dset.value):
            probs.append(f'{len(dset.bins)} bins for {np.ndim(dset.value)} dimensions')
        else:
            for (key, arr), dim in zip(dset.bins.items(), np.shape(dset.value)):
                if len(arr) and len(arr) not in (dim, dim + 1):
                    probs.append(f'bins {key!r} has {len(arr)} entries for {dim} cells')
    return probs


# ------------------------------------------------------------------ part 1: cells
def job_cells(args):
    (op,) = args
    from valjean.eponine.dataset import Dataset
    rep = Report()
    cells = list(itertools.product(VALS, ERRS, VALS, ERRS))
    left = Dataset(np.array([c[0] for c in cells]), np.array([c[1] for c in cells]), name='L', what='w')
    right = Dataset(np.array([c[2] for c in cells]), np.array([c[3] for c in cells]), name='R', what='w')
    before = snap(left), snap(right)
    res = apply_op(op, left, right)
    if (snap(left), snap(right)) != before:
        rep.violate(f'C08|operand-modified|{op}|dataset', f'operands changed by {op}', {'op': op})
    for path in ('array', 'scalar'):
        for i, (v1, e1, v2, e2) in enumerate(cells):
            if path == 'array':
                gval, gerr = res.value[i], res.error[i]
            else:
                one = apply_op(op, Dataset(np.float64(v1), np.float64(e1)), Dataset(np.float64(v2), np.float64(e2)))
                gval, gerr = one.value, one.error
            rval, rerr = ref_cell(op, v1, e1, v2, e2)
            nont = v1 <= 0 or v2 <= 0 or e1 == 0 or e2 == 0
            rep.case(nontrivial=(op, path, i) if nont else None, outcome=(op, 'err-nan' if gerr != gerr else sgn(gerr)))
            case = {'op': op, 'path': path, 'left(v,e)': (v1, e1), 'right(v,e)': (v2, e2)}
            tag = f'{op}|{path}|v1={sgn(v1)},v2={sgn(v2)}'
            if not close(gval, rval):
                rep.violate(f'C08|value|{tag}', f'({v1}+-{e1}) {op} ({v2}+-{e2}): value {gval!r}, reference {rval!r}', case)
            if rerr is None:
                if math.isfinite(float(gerr)) and gerr < 0:
                    rep.violate(f'C08|negative-error|{tag}', f'({v1}+-{e1}) {op} ({v2}+-{e2}): error {gerr!r}', case)
            elif not close(gerr, rerr):
                clause = 'negative-error' if gerr < 0 else 'error'
                rep.violate(f'C08|{clause}|{tag}', f'({v1}+-{e1}) {op} ({v2}+-{e2}): error {gerr!r}, reference {rerr!r}', case)
    # constants: python int / float / numpy array on the right
    singles = list(itertools.product(VALS, ERRS))
    dset = Dataset(np.array([c[0] for c in singles]), np.array([c[1] for c in singles]), name='L')
    for con in CONSTS:
        for kind in ('number', 'array', 'array-int64', 'array-uint8', 'scalar-dataset'):
            if kind == 'array-uint8' and (con < 0 or con != int(con)) or kind == 'array-int64' and con != int(con):
                continue
            before = snap(dset)
            if kind == 'number':
                out = apply_op(op, dset, con)
            elif kind == 'array':
                out = apply_op(op, dset, np.full(len(singles), con, dtype=float))
            elif kind in ('array-int64', 'array-uint8'):
                out = apply_op(op, dset, np.full(len(singles), con, dtype=kind.split('-')[1]))
            else:
                out = None
            if snap(dset) != before:
                rep.violate(f'C08|operand-modified|{op}|{kind}', f'left operand changed by {op} {con}', {'op': op, 'const': con})
            for i, (val, err) in enumerate(singles):
                if kind == 'scalar-dataset':
                    one = apply_op(op, Dataset(np.float64(val), np.float64(err)), con)
                    gval, gerr = one.value, one.error
                else:
                    gval, gerr = out.value[i], out.error[i]
                rval, rerr = ref_const(op, val, err, con)
                rep.case(nontrivial=(op, kind, con, i) if (con <= 0 or val <= 0 or err == 0) else None,
                         outcome=(op, 'const', 'err-nan' if gerr != gerr else sgn(gerr)))
                case = {'op': op, 'right operand': kind, 'const': con, 'left(v,e)': (val, err)}
                tag = f'{op}|{kind}|const={sgn(con)}'
                if not close(gval, rval):
                    rep.violate(f'C08|value|{tag}', f'({val}+-{err}) {op} {con}: value {gval!r}, reference {rval!r}', case)
                if rerr is None:
                    if math.isfinite(float(gerr)) and gerr < 0:
                        rep.violate(f'C08|negative-error|{tag}', f'({val}+-{err}) {op} {con}: error {gerr!r}', case)
                elif not close(gerr, rerr):
                    clause = 'negative-error' if gerr < 0 else 'error'
                    rep.violate(f'C08|{clause}|{tag}', f'({val}+-{err}) {op} {con}: error {gerr!r}, reference {rerr!r}', case)
    rep.sample({'cell': {'op': op, 'left(v,e)': (-2.0, 0.1), 'right(v,e)': (0.0, 1.0)}})
    return rep


# ------------------------------------------------------------------ part 2: shapes x bins kinds x right operand kinds
SHAPES = [(), (1,), (3,), (2, 2), (1, 2, 1)]


def make_bins(shape, kind):
    if kind == 'none' or shape == ():
        return None
    out = OrderedDict()
    for axis, dim in enumerate(shape):
        name = 'xyz'[axis]
        if kind == 'edges':
            out[name] = np.arange(dim + 1) * 1.5 + 10 * axis
        elif kind == 'centres':
            out[name] = np.arange(dim) * 1.5 + 10 * axis + 0.5
        else:
            out[name] = np.array([f'{name}{i}' for i in range(dim)])
    return out


def make_ds(shape, kind, name, offset=0.0):
    from valjean.eponine.dataset import Dataset
    ncell = int(np.prod(shape)) if shape else 1
    vals = np.array([(-2.0, 1.5, 3.0, 0.5)[(i + int(offset)) % 4] + offset for i in range(ncell)])
    errs = np.array([(0.1, 1.0, 0.0, 0.2)[i % 4] for i in range(ncell)])
    if shape == ():
        return Dataset(np.float64(vals[0]), np.float64(errs[0]), name=name, what='flux')
    return Dataset(vals.reshape(shape), errs.reshape(shape), bins=make_bins(shape, kind), name=name, what='flux')


def bins_equal(b1, b2):
    return list(b1) == list(b2) and all(np.array_equal(b1[k], b2[k]) for k in b1)


def job_shapes(args):
    (shape,) = args
    rep = Report()
    for kind in ('none', 'edges', 'centres', 'labels'):
        if shape == () and kind != 'none':
            continue
        rkinds = ['dataset-same-bins', 'dataset-no-bins', 'ndarray', 'int', 'float', 'ndarray-extra-dim']
        if kind == 'none' and shape != ():
            rkinds += ['dataset-edges', 'dataset-centres']      # left operand without bins, right operand with bins
        for rkind in rkinds:
            for op in OPS:
                left = make_ds(shape, kind, 'L')
                if rkind == 'dataset-same-bins':
                    right = make_ds(shape, kind, 'R', offset=1.0)
                elif rkind == 'dataset-no-bins':
                    right = make_ds(shape, 'none', 'R', offset=1.0)
                elif rkind in ('dataset-edges', 'dataset-centres'):
                    right = make_ds(shape, rkind.split('-')[1], 'R', offset=1.0)
                elif rkind == 'ndarray':
                    right = np.arange(1, (int(np.prod(shape)) if shape else 1) + 1, dtype=float).reshape(shape) - 2.5
                elif rkind == 'ndarray-extra-dim':
                    # an array that numpy would broadcast the dataset UP to: (2,) + shape.  The result cannot keep the bins of
                    # the left operand: either the operation is refused (ValueError) or the result is a well-formed dataset
                    right = np.arange(1, 2 * (int(np.prod(shape)) if shape else 1) + 1, dtype=float).reshape((2,) + tuple(shape)) - 2.5
                else:
                    right = -2 if rkind == 'int' else -0.5
                sleft = snap(left)
                sright = snap(right) if hasattr(right, 'bins') else (np.array(right).tobytes(),)
                case = {'shape': shape, 'bins': kind, 'right operand': rkind, 'op': op}
                tag = f'{op}|ndim={len(shape)}|bins={kind}|right={rkind}'
                try:
                    res = apply_op(op, left, right)
                except Exception as exc:  # pylint: disable=broad-except
                    if rkind == 'ndarray-extra-dim' and isinstance(exc, ValueError):
                        rep.counters['refused_operand_of_larger_shape'] += 1
                        rep.case(nontrivial=(shape, kind, rkind, op), outcome=('shape', rkind, 'refused'))
                        continue
                    rep.violate(f'C08|raises|{type(exc).__name__}|{tag}', f'{op} raised {exc!r}', case)
                    continue
                rep.case(nontrivial=(shape, kind, rkind, op), outcome=('shape', rkind, op))
                for prob in wellformed(res):
                    rep.violate(f'C08|ill-formed|{tag}', prob, case)
                exp_shape = tuple(shape) if rkind != 'ndarray-extra-dim' else (2,) + tuple(shape)   # plain numpy broadcasting
                if np.shape(res.value) != exp_shape:
                    rep.violate(f'C08|shape|{tag}', f'result shape {np.shape(res.value)}', case)
                if not bins_equal(res.bins, left.bins):
                    rep.violate(f'C08|bins-not-kept|{tag}', f'result bins {dict(res.bins)!r}, left operand {dict(left.bins)!r}', case)
                if snap(left) != sleft:
                    rep.violate(f'C08|operand-modified|{tag}', 'left operand changed', case)
                sright2 = snap(right) if hasattr(right, 'bins') else (np.array(right).tobytes(),)
                if sright2 != sright:
                    rep.violate(f'C08|operand-modified|right|{tag}', 'right operand changed', case)
                # writing into the result must not reach the operands either (result = new dataset)
                with np.errstate(all='ignore'):
                    neg = np.asarray(res.error) < 0
                if np.any(neg):
                    rep.violate(f'C08|negative-error|{op}|shapes|right={rkind}', f'negative errors {np.asarray(res.error)[neg]!r}', case)
    rep.sample({'shapes': {'shape': shape, 'bins': 'edges', 'right operand': 'dataset-no-bins', 'op': '/'}})
    return rep


# ------------------------------------------------------------------ part 3: chains (BFS) with a numpy reference model
class Ref:
    """Plain-numpy reference dataset."""

    def __init__(self, value, error, bins, mask=None):
        self.value, self.error, self.bins, self.mask = value, error, bins, mask

    def copy(self):
        return Ref(self.value.copy(), self.error.copy(), OrderedDict((k, v.copy()) for k, v in self.bins.items()),
                   None if self.mask is None else self.mask.copy())


def ref_binary(op, a, b):
    with np.errstate(all='ignore'):
        if op in '+-':
            val = a.value + b.value if op == '+' else a.value - b.value
            err = np.sqrt(a.error ** 2 + b.error ** 2)
        elif op == '*':
            val = a.value * b.value
            err = np.sqrt((a.error * b.value) ** 2 + (b.error * a.value) ** 2)
        else:
            val = a.value / b.value
            err = np.sqrt((a.error / b.value) ** 2 + (a.value * b.error / b.value ** 2) ** 2)
    mask = None
    if a.mask is not None or b.mask is not None:
        mask = np.zeros(np.shape(val), bool)
        for m in (a.mask, b.mask):
            if m is not None:
                mask = mask | m
    return Ref(val, err, OrderedDict(a.bins), mask)


def ref_const_arr(op, a, con):
    with np.errstate(all='ignore'):
        if op == '+':
            val, err = a.value + con, a.error
        elif op == '-':
            val, err = a.value - con, a.error
        elif op == '*':
            val, err = a.value * con, a.error * abs(con)
        else:
            val, err = a.value / con, a.error / abs(con)
    return Ref(val, err, OrderedDict(a.bins), a.mask)


def build_chain(shape, kind, hist):
    """Replay a chain on the implementation and on the reference. Returns (live datasets, live refs, error)."""
    live = [make_ds(shape, kind, 'A'), make_ds(shape, kind, 'B', offset=1.0)]
    refs = [Ref(np.array(d.value, dtype=float), np.array(d.error, dtype=float), OrderedDict(d.bins)) for d in live]
    created = [snap(d) for d in live]
    err = None
    for step in hist:
        try:
            new, rnew = do_step(step, live, refs)
        except Exception as exc:  # pylint: disable=broad-except
            err = (step, exc)
            break
        live.append(new)
        refs.append(rnew)
        created.append(snap(new))
    return live, refs, created, err


MASKS = {}


def mask_for(shape, which=0):
    ncell = int(np.prod(shape)) if shape else 1
    if which:
        return (np.arange(ncell) == ncell - 1).reshape(shape)
    return (np.arange(ncell) % 2 == 0).reshape(shape)


def do_step(step, live, refs):
    kind = step[0]
    if kind == 'bin':
        _, op, i, j = step
        return apply_op(op, live[i], live[j]), ref_binary(op, refs[i], refs[j])
    if kind == 'const':
        _, op, i, con = step
        return apply_op(op, live[i], con), ref_const_arr(op, refs[i], con)
    if kind == 'copy':
        return live[step[1]].copy(), refs[step[1]].copy()
    if kind == 'mask':
        i = step[1]
        msk = mask_for(np.shape(live[i].value), step[2] if len(step) > 2 else 0)
        ref = refs[i].copy()
        ref.mask = msk if ref.mask is None else (ref.mask | msk)
        return live[i].mask(msk), ref
    if kind == 'squeeze':
        i = step[1]
        ref = refs[i]
        keep = [ax for ax, dim in enumerate(np.shape(ref.value)) if dim >= 2]
        keys = list(ref.bins)
        nbins = OrderedDict((keys[ax], ref.bins[keys[ax]]) for ax in keep) if keys else OrderedDict()
        return live[i].squeeze(), Ref(np.squeeze(ref.value), np.squeeze(ref.error), nbins,
                                      None if ref.mask is None else np.squeeze(ref.mask))
    raise AssertionError(step)


def steps_enabled(nlive, shape, kind, tier):
    out = []
    for i in range(nlive):
        for j in range(nlive):
            for op in OPS:
                out.append(('bin', op, i, j))
        out.append(('const', '*', i, -2))
        out.append(('const', '/', i, -0.5))
        out.append(('const', '+', i, 3))
        out.append(('const', '-', i, 1.5))
        out.append(('copy', i))
        if shape != ():
            out.append(('mask', i, 0))
            out.append(('mask', i, 1))
            if kind != 'none':
                out.append(('squeeze', i))
    return out


def compare_ref(dset, ref):
    probs = []
    gmask = np.ma.getmaskarray(dset.value) if isinstance(dset.value, np.ma.MaskedArray) else None
    rmask = ref.mask
    if (gmask is None) != (rmask is None) and rmask is not None and rmask.any():
        probs.append(('mask', f'masked={gmask is not None}, reference masked={rmask is not None}'))
    gval, gerr = np.ma.getdata(dset.value), np.ma.getdata(dset.error)
    if np.shape(gval) != np.shape(ref.value):
        return [('shape', f'shape {np.shape(gval)}, reference {np.shape(ref.value)}')]
    sel = np.ones(np.shape(ref.value), bool) if rmask is None else ~rmask
    if gmask is not None:
        rm = np.zeros(np.shape(ref.value), bool) if rmask is None else rmask
        if np.any(rm & ~gmask):
            probs.append(('mask', f'mask {gmask.tolist()} lost cells of the reference mask {rm.tolist()}'))
        # numpy.ma masks the cells where an operation is undefined (x/0): allowed only there, and not compared
        extra = gmask & ~rm
        with np.errstate(all='ignore'):
            undefined = ~np.isfinite(np.asarray(ref.value, dtype=float)) | ~np.isfinite(np.asarray(ref.error, dtype=float))
        if np.any(extra & ~undefined):
            probs.append(('mask', f'mask {gmask.tolist()} hides cells that are neither masked by the user nor undefined'))
        sel = sel & ~gmask
    # cells hidden by the user stay hidden in the error as well as in the value (Dataset.mask() hides both): an error array that
    # lost its mask exposes the numbers stored under it
    if rmask is not None and rmask.any():
        emask = np.ma.getmaskarray(dset.error) if isinstance(dset.error, np.ma.MaskedArray) else np.zeros(np.shape(gerr), bool)
        if np.shape(emask) == np.shape(rmask) and np.any(rmask & ~emask):
            probs.append(('error-mask', f'error mask {emask.tolist()} lost cells of the mask {rmask.tolist()} (value mask '
                                        f'{None if gmask is None else gmask.tolist()})'))
    with np.errstate(all='ignore'):
        for name, got, exp in (('value', gval, ref.value), ('error', gerr, ref.error)):
            got, exp = np.asarray(got, dtype=float)[sel], np.asarray(exp, dtype=float)[sel]
            same = np.isclose(got, exp, rtol=1e-12, atol=1e-300, equal_nan=True)
            # reference has |c| scaling: a negative error of the implementation differs and is reported
            if not np.all(same):
                neg = name == 'error' and np.any(got[~same] < 0)
                probs.append(('negative-error' if neg else name, f'{name} {got[~same].tolist()}, reference {exp[~same].tolist()}'))
    if not bins_equal(dset.bins, ref.bins):
        probs.append(('bins', f'bins {dict(dset.bins)!r}, reference {dict(ref.bins)!r}'))
    return probs


def job_chain(args):
    shape, kind, depth, tier = args
    rep = Report()

    def build(hist):
        return build_chain(shape, kind, hist)

    def ops_of(hist, obj):
        live, _, _, err = obj
        return [] if err else steps_enabled(len(live), shape, kind, tier)

    def canon(obj):
        live, _, created, err = obj
        return (tuple(snap(d) for d in live), repr(err))

    def check(hist, obj):
        live, refs, created, err = obj
        out = []
        tag = f'ndim={len(shape)}|bins={kind}'
        if err:
            step, exc = err
            # dividing/multiplying is total; the only legitimate refusals are inconsistent operands (shapes/bins differ after squeeze)
            if isinstance(exc, ValueError) and step[0] == 'bin':
                rep.counters['refused_inconsistent_operands'] += 1
                return []
            return [(f'C08|chain|raises|{type(exc).__name__}|{step[0]}|{tag}', f'step {step} raised {exc!r}')]
        if not hist:
            return []
        new, rnew = live[-1], refs[-1]
        step = hist[-1]
        for prob in wellformed(new):
            out.append((f'C08|chain|ill-formed|{step[0]}|{tag}', prob))
        for clause, text in compare_ref(new, rnew):
            out.append((f'C08|chain|{clause}|{step[0]}{step[1] if step[0] in ("bin", "const") else ""}|{tag}', f'after {step}: {text}'))
        for k, dset in enumerate(live[:-1]):
            if snap(dset) != created[k]:
                out.append((f'C08|chain|operand-modified|{step[0]}|{tag}', f'step {step} changed live dataset #{k}'))
        if step[0] == 'copy':
            orig = live[step[1]]
            pairs = [('value', new.value, orig.value), ('error', new.error, orig.error)]
            pairs += [(f'bins[{key}]', new.bins[key], orig.bins[key]) for key in orig.bins if key in new.bins]
            for name, arr1, arr2 in pairs:
                if isinstance(arr1, np.ndarray) and isinstance(arr2, np.ndarray) and arr1.size and np.shares_memory(arr1, arr2):
                    out.append((f'C08|chain|copy-shares-memory|{name.split("[")[0]}|{tag}', f'copy() shares {name} with its original'))
            before = snap(orig)
            for arr in [new.value, new.error] + list(new.bins.values()):
                if isinstance(arr, np.ndarray) and arr.size and arr.dtype.kind == 'f':
                    arr[...] = arr + 1.0
            if snap(orig) != before:
                out.append((f'C08|chain|copy-write-through|{tag}', 'writing into the arrays of a copy changed the original'))
        return out

    bfs.search(build, ops_of, canon, check, depth, rep, label=f'{shape}-{kind}', prune_violating=True)
    rep.nontrivial_count += max(rep.states - 1, 0)
    rep.outcomes[('chain-states', len(shape), kind)] += rep.states
    rep.sample({'chain': {'shape': shape, 'bins': kind, 'steps': [('bin', '*', 0, 1), ('const', '*', 2, -2), ('copy', 3)]}})
    return rep


def _call(job):
    return job[0](job[1])


def run(tier, seed):
    jobs = [(job_cells, (op,)) for op in OPS]
    jobs += [(job_shapes, (shape,)) for shape in SHAPES]
    depth = 3          # depth 4 has ~1e8 states per shape: out of reach; thorough widens the shapes and bins kinds instead
    for shape in (((), (3,), (2, 2), (1, 2, 1)) if tier == 'quick' else ((), (1,), (3,), (2, 2), (1, 2, 1), (2, 1))):
        for kind in (('edges', 'centres', 'none') if tier == 'quick' else ('edges', 'centres', 'none', 'labels')):
            if shape == () and kind != 'none':
                continue
            jobs.append((job_chain, (shape, kind, depth, tier)))
    rep = pool.pmap(_call, jobs, seed)
    rep.extra['chain_depth'] = depth
    return rep


def replay(case):
    if 'history' in case:
        label = case.get('label', '(3,)-edges')
        shape_txt, kind = label.rsplit('-', 1)
        shape = tuple(int(x) for x in shape_txt.strip('()').split(',') if x.strip())
        hist = [tuple(s) for s in case['history']]
        live, refs, _, err = build_chain(shape, kind, hist)
        obs = {'error': repr(err), 'last': repr(live[-1]), 'reference value': refs[-1].value.tolist(), 'reference error': refs[-1].error.tolist()}
        probs = [] if err else compare_ref(live[-1], refs[-1])
        obs['problems'] = probs
        obs['violates'] = bool(probs) or bool(err)
        return obs
    if 'left(v,e)' in case:
        from valjean.eponine.dataset import Dataset
        v1, e1 = case['left(v,e)']
        if 'right(v,e)' in case:
            v2, e2 = case['right(v,e)']
            res = apply_op(case['op'], Dataset(np.array([v1]), np.array([e1])), Dataset(np.array([v2]), np.array([e2])))
            ref = ref_cell(case['op'], v1, e1, v2, e2)
        else:
            res = apply_op(case['op'], Dataset(np.array([v1]), np.array([e1])), case['const'])
            ref = ref_const(case['op'], v1, e1, case['const'])
        bad = not close(res.value[0], ref[0]) or (ref[1] is not None and not close(res.error[0], ref[1]))
        return {'value': float(res.value[0]), 'error': float(res.error[0]), 'reference': ref, 'violates': bad}
    return {'note': 're-run ./vf check C08', 'case': case, 'violates': False}
