"""C14 - persisted environments survive crashes: a bad file means not-done, not an abort."""
import itertools
import logging
import os
import pickle
import shutil
import tempfile
from collections import OrderedDict

import numpy as np

from ..core.report import Report
from ..core import pool, bfs
from ..core.snap import deepsnap, diff

LEVEL = 'model_checking'
ENGINE = 'E-crash'
DESIGN_REF = '5/C14'
TECHNIQUE = ('exhaustive crash-point enumeration of the real write_env / read_env: every byte prefix, zero-filled tail, empty / missing '
             'file and directory-in-place of every per-task environment file, plus explicit-state BFS over histories of writes, crashes '
             'during a write and reads, against a dictionary of acknowledged DONE entries')
RULE = ('[task names with one and two path separators (nested output directories)] ' +
        '(crash) for every environment of the alphabet (1-3 tasks; statuses WAITING/PENDING/DONE/FAILED/SKIPPED; with / without '
        'output_dir; payloads int, nested dict/list, numpy array, Dataset, TestResult): write_env, then for every written file every '
        'prefix length b in [0, size), a zero-filled tail at every b, the missing file and a directory in its place [thorough: every '
        'single-byte substitution by 0x00, 0x2e, 0x80, 0xff when the result is unreadable]; read_env must not raise, the damaged task '
        'must be absent, every intact DONE task with an output directory must come back equal to what was written and no other task '
        'may be DONE; (real write path) for 5 pairs (entry on disk, entry being written) the new entry is written by the real write_env in a '
        'forked child limited to k bytes of file size, for every k: read_env must give nothing, the old entry or the complete new entry, never '
        'a mixture; (run command) BFS over histories of the real RunCommand.execute on a 3-task job file (4 sets of failing tasks) with '
        'truncation / deletion of a task file between runs: read_env gives exactly the DONE entries of the environment the run ended with; '
        '(history) BFS to depth 3 over {write_env(E_i), crash during the write of task k of E_i at byte b, delete file}: '
        'state = bytes on disk; after each step read_env equals the reference dictionary of fully written DONE entries; non-trivial = '
        'crash states with 0 < b < size, and histories with at least one crash or overwrite')
ASSUMPTIONS = ['crash model: open(path, "wb") truncates, then a prefix of the new content reaches the disk (optionally with a zero-filled tail)',
               'a substituted byte is judged only when the file becomes unreadable for pickle.loads itself (no checksum exists)',
               'payloads are picklable (as quantified)']
LEVEL_TEXT = ('Every byte-level crash state of every per-task environment file written by the real write_env (for an alphabet of statuses, '
              'output directories and payload kinds) is read back by the real read_env: never an exception, never a partial or spurious '
              'DONE entry, intact neighbours untouched; histories of writes / crashes / deletions up to depth 3 are explored breadth-first '
              'against the dictionary of acknowledged entries.')
LEVEL_NOTE = 'file system semantics as in the stated crash model; pickle trusted for intact files.'

FILENAME = 'env.pickle'


class Fragile:
    """A picklable payload whose class refuses to be rebuilt once REFUSE is set (the file was written by an incompatible version of
    the class): unpickling then fails inside __setstate__ with whatever exception the class raises - with or without arguments."""
    REFUSE = None

    def __init__(self):
        self.numbers = [1, 2, 3]

    def __eq__(self, other):
        return isinstance(other, Fragile) and self.numbers == other.numbers

    def __setstate__(self, state):
        if Fragile.REFUSE is not None:
            raise Fragile.REFUSE      # pylint: disable=raising-bad-type
        self.__dict__.update(state)


REFUSALS = [AssertionError(), KeyError(), MemoryError(), RuntimeError('incompatible version'), AttributeError('numbers'),
            IndexError(), TypeError(), NotImplementedError, OSError(), OSError(5, 'Input/output error')]
SUBST_QUICK = (0x00, 0x2e, 0x80, 0xff, 0x8e, 0x8d, 0x42)     # NUL, STOP, PROTO, 0xff, BINBYTES8, BINUNICODE8, BINBYTES
# (BYTEARRAY8, 0x96, behaves like BINBYTES8 but makes CPython 3.12 print 'SystemError: deallocated bytearray object has exported
# buffers' through the unraisable hook for every damaged file: left out to keep stderr readable)


def payloads():
    from valjean.eponine.dataset import Dataset
    from valjean.gavroche.test import TestEqual
    dset = Dataset(np.arange(3.0), np.arange(3.0) * 0.1, bins=OrderedDict([('e', np.arange(4.0))]), name='ds', what='flux')
    return {
        'int': 7,
        'nested': {'a': [1, 2, {'b': (3, 4.5)}], 'text': 'x' * 20 + '.' + 'y' * 5},
        'array': np.arange(6.0).reshape(2, 3),
        'dataset': dset,
        'testresult': TestEqual(dset, dset.copy(), name='eq', description='d').evaluate(),
        'fragile': Fragile(),
        'bytes': {'blob': bytes(range(256)) * 2, 'text': 'z' * 300},
    }


def make_env(root, spec):
    """spec: tuple of (task name, status name, has_output_dir, payload kind, version)."""
    from valjean.cosette.env import Env
    from valjean.cosette.task import TaskStatus
    pls = payloads()
    env = Env()
    for name, status, outdir, pkind, version in spec:
        # 'DONE-int': the status is the plain integer 3, which the Env API (get_status / is_done) reads as DONE
        ent = {'status': int(TaskStatus.DONE) if status == 'DONE-int' else TaskStatus[status], 'payload': pls[pkind], 'version': version,
               'start_clock': 1.0, 'end_clock': 2.0}
        if outdir:
            ent['output_dir'] = os.path.join(root, name)
        env[name] = ent
    return env


def expected(root, spec):
    """Reference: name -> snapshot of the entry, for DONE tasks with an output directory."""
    env = make_env(root, spec)
    return {name: deepsnap(env[name]) for name, status, outdir, _, _ in spec if status in ('DONE', 'DONE-int') and outdir}


def do_write(root, spec):
    from valjean.cambronne.common import write_env
    for name, _, outdir, _, _ in spec:
        if outdir:
            os.makedirs(os.path.join(root, name), exist_ok=True)
    write_env(make_env(root, spec), filename=FILENAME, fmt='pickle')


def do_read(root, names):
    from valjean.cambronne.common import read_env
    return read_env(root=root, names=names, filename=FILENAME, fmt='pickle')


def judge_read(rep, root, names, ref, case, tag, size=0):
    """read_env must not raise and must equal ref exactly (on the DONE entries)."""
    try:
        env = do_read(root, names)
    except Exception as exc:  # pylint: disable=broad-except
        rep.violate(f'C14|read-raises|{type(exc).__name__}|{tag}', f'read_env raised {type(exc).__name__}: {exc}', case, size=size)
        return 'raises'
    got = {}
    try:
        for name in env:
            got[name] = deepsnap(env[name])
    except Exception as exc:  # pylint: disable=broad-except
        rep.violate(f'C14|read-garbage|{tag}', f'read_env returned an unusable environment: {exc!r}', case, size=size)
        return 'garbage'
    for name in sorted(set(got) - set(ref)):
        rep.violate(f'C14|spurious-entry|{tag}', f'task {name!r} is reported although it has no intact DONE file: {str(got[name])[:120]}', case, size=size)
    for name in sorted(set(ref) - set(got)):
        rep.violate(f'C14|lost-entry|{tag}', f'task {name!r} was written DONE and intact but is not read back', case, size=size)
    for name in sorted(set(ref) & set(got)):
        if got[name] != ref[name]:
            rep.violate(f'C14|entry-differs|{tag}', f'task {name!r}: {diff(got[name], ref[name])}', case, size=size)
    return tuple(sorted(got))


def env_alphabet(tier):
    """Specs of 1-3 tasks."""
    statuses = ['DONE', 'FAILED', 'SKIPPED', 'WAITING', 'PENDING']
    pkinds = ['int', 'nested', 'array', 'dataset', 'testresult', 'fragile', 'bytes']
    out = []
    for status, outdir, pkind in itertools.product(statuses, (True, False), pkinds):
        out.append((('t0', status, outdir, pkind, 1),))
    for st0, st1 in itertools.product(statuses[:3], repeat=2):
        out.append((('t0', st0, True, 'nested', 1), ('t1', st1, True, 'int', 1)))
    out.append((('t0', 'DONE', True, 'dataset', 1), ('t1', 'DONE', False, 'int', 1), ('t2', 'FAILED', True, 'array', 1)))
    # task names with a path separator (CheckoutTask / BuildTask accept them): the output directory is nested below the root
    out.append((('sub/t0', 'DONE', True, 'nested', 1),))
    out.append((('t0', 'DONE-int', True, 'nested', 1),))
    out.append((('t0', 'DONE-int', True, 'int', 1), ('t1', 'FAILED', True, 'int', 1), ('t2', 'DONE', True, 'int', 1)))
    out.append((('sub/t0', 'DONE', True, 'int', 1), ('t1', 'DONE', True, 'nested', 1), ('sub/deep/t2', 'FAILED', True, 'int', 1)))
    if tier == 'thorough':
        for sts in itertools.product(statuses[:3], repeat=3):
            out.append(tuple((f't{i}', s, True, pkinds[i], 1) for i, s in enumerate(sts)))
    return out


def limit_memory(extra=2 << 30):
    """A damaged pickle can ask the unpickler for a giant memo table or buffer that the kernel grants and that takes minutes to
    clear (observed: 166 s for one substituted byte).  Cap the address space of this worker so such requests fail at once with
    MemoryError - which the reader has to survive like any other unreadable file."""
    import resource
    with open('/proc/self/statm', encoding='ascii') as fil:
        now = int(fil.read().split()[0]) * resource.getpagesize()
    soft, hard = resource.getrlimit(resource.RLIMIT_AS)
    want = now + extra
    if soft == resource.RLIM_INFINITY or soft > want:
        resource.setrlimit(resource.RLIMIT_AS, (want, hard))


def job_crash(args):
    spec, tier = args
    rep = Report()
    limit_memory()
    root = tempfile.mkdtemp(prefix='vf_c14_')
    try:
        do_write(root, spec)
        names = [s[0] for s in spec]
        ref = expected(root, spec)
        case0 = {'env': spec}
        out = judge_read(rep, root, names, ref, dict(case0, fault='none'), 'intact')
        rep.case(nontrivial=None, outcome=('intact', out))
        for name, status, outdir, pkind, _ in spec:
            if not outdir:
                continue
            path = os.path.join(root, name, FILENAME)
            if not os.path.isfile(path):
                rep.counters['tasks_without_file_after_write_env'] += 1     # allowed for tasks that are not DONE
                continue
            with open(path, 'rb') as fil:
                good = fil.read()
            refbad = {k: v for k, v in ref.items() if k != name}
            tagb = f'status={status}|payload={pkind}'
            faults = [('missing', None), ('directory', None)]
            faults += [('prefix', b) for b in range(len(good))]
            faults += [('zero-tail', b) for b in range(0, len(good), 1 if tier == 'thorough' or len(good) < 400 else 3)]
            if tier == 'thorough' or (len(spec) == 1 and status == 'DONE'):
                faults += [('subst', (b, v)) for b in range(len(good)) for v in SUBST_QUICK]
            if pkind == 'fragile':
                faults += [('class-refuses', k) for k in range(len(REFUSALS))]
            for kind, arg in faults:
                if os.path.isdir(path):
                    os.rmdir(path)
                elif os.path.exists(path):
                    os.remove(path)
                data = None
                if kind == 'prefix':
                    data = good[:arg]
                elif kind == 'zero-tail':
                    data = good[:arg] + b'\0' * (len(good) - arg)
                elif kind == 'subst':
                    pos, val = arg
                    if good[pos] == val:
                        continue
                    data = good[:pos] + bytes([val]) + good[pos + 1:]
                    if val in (0x8e, 0x8d):
                        # an 8-byte length between 16 MiB and 256 TiB makes the unpickler allocate and clear that much memory
                        # before it notices the file is short (minutes per file): not explored, counted
                        size = int.from_bytes(data[pos + 1:pos + 9].ljust(8, b'\0'), 'little')
                        if 2 ** 24 <= size < 2 ** 48:
                            rep.counters['substitutions_with_allocatable_giant_length_not_explored'] += 1
                            continue
                    try:
                        pickle.loads(data)
                        rep.counters['substitutions_still_readable_not_judged'] += 1
                        continue
                    except Exception:  # pylint: disable=broad-except
                        pass
                elif kind == 'directory':
                    os.mkdir(path)
                elif kind == 'class-refuses':
                    data = good
                    Fragile.REFUSE = REFUSALS[arg]
                if data is not None:
                    with open(path, 'wb') as fil:
                        fil.write(data)
                case = dict(case0, fault=kind, arg=arg, task=name)
                try:
                    out = judge_read(rep, root, names, refbad, case, f'{kind}', size=(arg if isinstance(arg, int) else 0))
                finally:
                    Fragile.REFUSE = None
                nont = kind in ('prefix', 'zero-tail', 'subst') and arg not in (0,)
                rep.case(nontrivial=(spec, name, kind, arg) if nont else None, outcome=(kind, out if isinstance(out, str) else len(out)))
            if os.path.isdir(path):
                os.rmdir(path)
            with open(path, 'wb') as fil:
                fil.write(good)
        rep.sample({'env': spec, 'fault': 'prefix', 'arg': 17, 'task': spec[0][0]})
    finally:
        shutil.rmtree(root, ignore_errors=True)
    return rep


# ------------------------------------------------------------------ histories
HIST_ENVS = {
    'A': (('t0', 'DONE', True, 'nested', 1), ('t1', 'DONE', True, 'int', 1)),
    'B': (('t0', 'FAILED', True, 'nested', 2), ('t1', 'DONE', True, 'int', 2)),
    'C': (('t0', 'DONE', True, 'array', 3), ('t1', 'SKIPPED', True, 'int', 3)),
    'D': (('t0', 'DONE', False, 'int', 4), ('t1', 'DONE', True, 'dataset', 4)),
}


def job_history(args):
    depth, first = args
    rep = Report()
    root = tempfile.mkdtemp(prefix='vf_c14h_')
    names = ['t0', 't1']
    # pre-compute the bytes each environment writes per task (deterministic pickles)
    blobs = {}
    for key, spec in HIST_ENVS.items():
        sub = os.path.join(root, 'pre' + key)
        os.makedirs(sub)
        # same relative layout under another root would change output_dir inside the pickle: compute in place instead
    work = os.path.join(root, 'work')

    def reset():
        shutil.rmtree(work, ignore_errors=True)
        os.makedirs(work)

    def file_of(name):
        return os.path.join(work, name, FILENAME)

    for key, spec in HIST_ENVS.items():
        reset()
        do_write(work, spec)
        blobs[key] = {}
        for name, _, outdir, _, _ in spec:
            if outdir and os.path.isfile(file_of(name)):
                with open(file_of(name), 'rb') as fil:
                    blobs[key][name] = fil.read()
    refs = {key: expected(work, spec) for key, spec in HIST_ENVS.items()}

    def apply(hist):
        """Replay a history with the REAL write_env for writes; crashes emulate open('wb') + partial write."""
        reset()
        ack = {}
        for step in hist:
            if step[0] == 'write':
                do_write(work, HIST_ENVS[step[1]])
                for name, _, outdir, _, _ in HIST_ENVS[step[1]]:
                    if outdir:
                        ack.pop(name, None)
                        if name in refs[step[1]]:
                            ack[name] = refs[step[1]][name]
            elif step[0] == 'crash':
                _, key, name, frac = step
                blob = blobs[key].get(name)
                if blob is None:
                    continue
                # tasks written before `name` in this write_env call are complete
                for other, _, outdir, _, _ in HIST_ENVS[key]:
                    if other == name:
                        break
                    if outdir and other in blobs[key]:
                        os.makedirs(os.path.dirname(file_of(other)), exist_ok=True)
                        with open(file_of(other), 'wb') as fil:
                            fil.write(blobs[key][other])
                        ack.pop(other, None)
                        if other in refs[key]:
                            ack[other] = refs[key][other]
                os.makedirs(os.path.dirname(file_of(name)), exist_ok=True)
                cut = {0: 0, 1: 1, 2: len(blob) // 2, 3: len(blob) - 1}[frac]
                with open(file_of(name), 'wb') as fil:
                    fil.write(blob[:cut])
                ack.pop(name, None)
            elif step[0] == 'delete':
                if os.path.exists(file_of(step[1])):
                    os.remove(file_of(step[1]))
                ack.pop(step[1], None)
        return ack

    def build(hist):
        return apply((first,) + tuple(hist) if first else tuple(hist))

    def state():
        out = []
        for name in names:
            path = file_of(name)
            out.append(open(path, 'rb').read() if os.path.isfile(path) else None)  # pylint: disable=consider-using-with
        return tuple(out)

    ops = [('write', k) for k in HIST_ENVS]
    ops += [('crash', k, n, f) for k in HIST_ENVS for n in names for f in (0, 1, 2, 3)]
    ops += [('delete', n) for n in names]

    def check(hist, ack):
        sub = Report()
        full = ((first,) if first else ()) + tuple(hist)
        tag = 'after-' + (full[-1][0] if full else 'nothing')
        out = judge_read(sub, work, names, ack, {'history': [list(s) for s in full]}, tag, size=len(full))
        rep.outcomes[('history', out if isinstance(out, str) else len(out))] += 1
        return [(k, v[0]) for k, v in sub.violations.items()]

    try:
        bfs.search(build, lambda h, o: ops, lambda ack: state(), check, depth, rep, label='hist', prune_violating=True)
        rep.nontrivial_count += max(rep.states - 1, 0)
        rep.sample({'history': [['write', 'A'], ['crash', 'B', 't1', 2], ['write', 'C']]})
    finally:
        shutil.rmtree(root, ignore_errors=True)
    return rep


# ------------------------------------------------------------------ histories of the real `run` command
JOB_FILE = '''"""Job file of the C14 run-history check: three tasks whose behaviour is read from a control file at execution time."""
import json
import os

from valjean.cosette.task import Task, TaskStatus

CTRL = os.environ['VF_C14_CTRL']


class Step(Task):
    def do(self, env, config):
        with open(CTRL, encoding='utf-8') as fil:
            ctrl = json.load(fil)
        out = os.path.join(config.query('path', 'output-root'), self.name)
        os.makedirs(out, exist_ok=True)
        with open(CTRL + '.journal', 'a', encoding='utf-8') as fil:
            fil.write(self.name + '\\n')
        upd = {self.name: {'output_dir': out, 'payload': [self.name, ctrl['run']]}}
        return upd, (TaskStatus.FAILED if self.name in ctrl['fail'] else TaskStatus.DONE)


def job():
    produce = Step('produce')
    consume = Step('consume', deps=[produce])
    side = Step('side', soft_deps=[produce])
    return [consume, side]
'''
RUN_TASKS = ('produce', 'consume', 'side')


def job_runcmd(args):
    """BFS over histories of {`valjean run` with a set of failing tasks, truncation / deletion of a task's environment file between
    runs}: after every run, what read_env gives back must be exactly the DONE entries (with an output directory) of the environment
    the run ended with - never a DONE entry for a task that did not end DONE."""
    depth, first = args
    import argparse
    import json
    from valjean.cambronne.commands.run import RunCommand
    from valjean.config import Config
    rep = Report()
    root = tempfile.mkdtemp(prefix='vf_c14r_')
    jobfile = os.path.join(root, 'job_c14.py')
    with open(jobfile, 'w', encoding='utf-8') as fil:
        fil.write(JOB_FILE)
    ctrl = os.path.join(root, 'ctrl.json')
    os.environ['VF_C14_CTRL'] = ctrl
    work = os.path.join(root, 'work')
    envname = FILENAME

    def file_of(name):
        return os.path.join(work, 'out', name, envname)

    def run_once(fail, number):
        with open(ctrl, 'w', encoding='utf-8') as fil:
            json.dump({'fail': sorted(fail), 'run': number}, fil)
        conf = Config()
        conf.set('path', 'output-root', os.path.join(work, 'out'))
        conf.set('path', 'log-root', os.path.join(work, 'log'))
        ns = argparse.Namespace(job_file=jobfile, job_args=[], job_kwargs={}, workers=1, env_filename=envname, env_format='pickle')
        return RunCommand().execute(ns, conf)

    def build(hist):
        shutil.rmtree(work, ignore_errors=True)
        os.makedirs(work)
        last, err = None, None
        for number, step in enumerate(((first,) if first else ()) + tuple(hist)):
            try:
                if step[0] == 'run':
                    last = run_once(step[1], number)
                elif step[0] == 'truncate':
                    if os.path.isfile(file_of(step[1])):
                        with open(file_of(step[1]), 'rb') as fil:
                            blob = fil.read()
                        with open(file_of(step[1]), 'wb') as fil:
                            fil.write(blob[:len(blob) // 2])
                elif os.path.isfile(file_of(step[1])):
                    os.remove(file_of(step[1]))
            except Exception as exc:  # pylint: disable=broad-except
                err = (step, exc)
                break
        return last, err

    def canon(_obj):
        out = []
        for name in RUN_TASKS:
            path = file_of(name)
            if not os.path.isfile(path):
                out.append(None)
                continue
            with open(path, 'rb') as fil:
                blob = fil.read()
            try:
                ent = pickle.loads(blob)[name]
                out.append((getattr(ent.get('status'), 'name', None), 'intact'))     # run numbers do not matter for the future
            except Exception:  # pylint: disable=broad-except
                out.append('damaged')
        return tuple(out)

    def check(hist, obj):
        last, err = obj
        full = ((first,) if first else ()) + tuple(hist)
        if err is not None:
            return [(f'C14|run-command|raises|{type(err[1]).__name__}|after-{err[0][0]}', f'step {err[0]} raised {err[1]!r}')]
        if not full or full[-1][0] != 'run' or last is None:
            return []
        ref = {}
        for name in RUN_TASKS:
            ent = last.get(name) if name in last else None
            if ent is not None and getattr(ent.get('status'), 'name', None) == 'DONE' and ent.get('output_dir'):
                ref[name] = deepsnap(ent)
        sub = Report()
        prev = [s[0] for s in full[:-1]]
        tag = 'run-command|' + ('after-damage' if ('truncate' in prev or 'delete' in prev) else 'runs-only')
        out = judge_read(sub, os.path.join(work, 'out'), list(RUN_TASKS), ref, {'history': [list(map(_plain, s)) for s in full]}, tag, size=len(full))
        rep.outcomes[('run-command', out if isinstance(out, str) else len(out))] += 1
        return [(k, v[0]) for k, v in sub.violations.items()]

    ops = [('run', ()), ('run', ('produce',)), ('run', ('consume',)), ('run', ('side',))]
    ops += [(kind, name) for kind in ('truncate', 'delete') for name in RUN_TASKS]
    logging.disable(logging.CRITICAL)
    try:
        bfs.search(build, lambda h, o: [] if o[1] else ops, canon, check, depth, rep, label=f'run-command:first={first}', prune_violating=True)
        rep.nontrivial_count += max(rep.states - 1, 0)
        rep.sample({'history': [['run', []], ['truncate', 'produce'], ['run', ['produce']]]})
    finally:
        logging.disable(logging.NOTSET)
        shutil.rmtree(root, ignore_errors=True)
    return rep


def _plain(obj):
    return list(obj) if isinstance(obj, tuple) else obj


REAL_PAIRS = [
    # (entry on disk from an earlier run, entry being written when the job is killed / the disk fills up)
    ((('t0', 'DONE', True, 'nested', 1),), (('t0', 'FAILED', True, 'nested', 2),)),
    ((('t0', 'DONE', True, 'int', 1),), (('t0', 'DONE', True, 'int', 2),)),
    ((('t0', 'DONE', True, 'nested', 1),), (('t0', 'DONE', True, 'array', 2),)),
    ((('t0', 'FAILED', True, 'int', 1),), (('t0', 'DONE', True, 'nested', 2),)),
    ((('t0', 'DONE', True, 'dataset', 1),), (('t0', 'SKIPPED', True, 'dataset', 2),)),
]


def job_real_crash(pair):
    """Crash injected into the REAL write path: the new entry is written by the real write_env in a forked child whose
    file-size limit (RLIMIT_FSIZE) is k bytes, for every k: the write is cut after exactly k bytes whatever way the file is opened."""
    import resource
    import signal
    old_spec, new_spec = pair
    rep = Report()
    root = tempfile.mkdtemp(prefix='vf_c14x_')
    try:
        name = old_spec[0][0]
        path = os.path.join(root, name, FILENAME)
        do_write(root, new_spec)
        with open(path, 'rb') as fil:
            new_blob = fil.read()
        do_write(root, old_spec)
        with open(path, 'rb') as fil:
            old_blob = fil.read()
        old_ref, new_ref = expected(root, old_spec), expected(root, new_spec)
        for cut in range(0, len(new_blob) + 1):
            with open(path, 'wb') as fil:
                fil.write(old_blob)
            pid = os.fork()
            if pid == 0:
                try:
                    signal.signal(signal.SIGXFSZ, signal.SIG_IGN)
                    resource.setrlimit(resource.RLIMIT_FSIZE, (cut, cut))
                    do_write(root, new_spec)
                finally:
                    os._exit(0)
            os.waitpid(pid, 0)
            with open(path, 'rb') as fil:
                on_disk = fil.read()
            case = {'env on disk': old_spec, 'env being written': new_spec, 'write cut after bytes': cut, 'fault': 'real-write-cut'}
            sub = Report()
            allowed = [{}, old_ref] + ([new_ref] if cut >= len(new_blob) else [])
            got = None
            try:
                env = do_read(root, [name])
                got = {n: deepsnap(env[n]) for n in env}
            except Exception as exc:  # pylint: disable=broad-except
                rep.violate(f'C14|read-raises|{type(exc).__name__}|real-write-cut', f'read_env raised {exc!r} after a write cut at byte {cut}', case, size=cut)
            rep.case(nontrivial=(repr(pair), cut) if 0 < cut < len(new_blob) else None,
                     outcome=('real-cut', 'absent' if got == {} else ('old' if got == old_ref else ('new' if got == new_ref else 'other'))))
            if got is not None and got not in allowed:
                what = 'a mixture of the old and the new entry' if on_disk[:cut] == new_blob[:cut] and len(on_disk) > cut else 'an entry that was never written'
                rep.violate('C14|mixed-entry|real-write-cut', f'write of {new_spec} over {old_spec} cut after {cut} of {len(new_blob)} bytes: read_env reports {what}: '
                            f'{str(got)[:160]}', case, size=cut)
            del sub
        rep.sample({'env on disk': old_spec, 'env being written': new_spec, 'write cut after bytes': len(new_blob) // 2})
    finally:
        shutil.rmtree(root, ignore_errors=True)
    return rep


def _call(job):
    return job[0](job[1])


def run(tier, seed):
    jobs = [(job_crash, (spec, tier)) for spec in env_alphabet(tier)]
    depth = 2 if tier == 'quick' else 3  # plus the first step fixed per job
    firsts = [None] + [('write', k) for k in HIST_ENVS] + [('crash', 'A', 't0', 2), ('crash', 'D', 't1', 3)]
    jobs += [(job_history, (depth, first)) for first in firsts]
    jobs += [(job_real_crash, pair) for pair in REAL_PAIRS]
    jobs += [(job_runcmd, (depth + (1 if tier == 'quick' else 0), first)) for first in (('run', ()), ('run', ('produce',)), ('run', ('consume',)), ('run', ('side',)))]
    rep = pool.pmap(_call, jobs, seed)
    rep.extra['history_depth'] = depth + 1
    return rep


def replay(case):
    rep = Report()
    root = tempfile.mkdtemp(prefix='vf_c14r_')
    try:
        if 'env' in case:
            spec = tuple(tuple(s) for s in case['env'])
            do_write(root, spec)
            names = [s[0] for s in spec]
            ref = expected(root, spec)
            if case.get('fault') not in (None, 'none'):
                path = os.path.join(root, case['task'], FILENAME)
                good = open(path, 'rb').read()  # pylint: disable=consider-using-with
                os.remove(path)
                kind, arg = case['fault'], case.get('arg')
                if kind == 'prefix':
                    open(path, 'wb').write(good[:arg])  # pylint: disable=consider-using-with
                elif kind == 'zero-tail':
                    open(path, 'wb').write(good[:arg] + b'\0' * (len(good) - arg))  # pylint: disable=consider-using-with
                elif kind == 'subst':
                    open(path, 'wb').write(good[:arg[0]] + bytes([arg[1]]) + good[arg[0] + 1:])  # pylint: disable=consider-using-with
                elif kind == 'directory':
                    os.mkdir(path)
                ref = {k: v for k, v in ref.items() if k != case['task']}
            out = judge_read(rep, root, names, ref, case, 'replay')
            return {'read_env': repr(out), 'problems': {k: v[0] for k, v in rep.violations.items()}, 'violates': bool(rep.violations)}
    finally:
        shutil.rmtree(root, ignore_errors=True)
    return {'note': 'history case: re-run ./vf check C14', 'case': case, 'violates': False}
