"""C11 - a truncated Tripoli-4 listing gives a parser error or the last complete edition."""
import hashlib
import os
import shutil
import signal
import tempfile
import traceback

import numpy as np

from ..core.report import Report
from ..core import pool

LEVEL = 'model_checking'
ENGINE = 'E-crash'
DESIGN_REF = '5/C11'
TECHNIQUE = ('exhaustive crash-point enumeration: every byte prefix of every listing is written to disk and opened / parsed by the real '
             'Parser; outcomes classified and successful editions compared with the same edition of the complete listing; a history '
             'dimension re-runs prefixes after other parses in the same process')
RULE = ('for each listing (example listings shipped with the repository and synthetic multi-edition listings): every byte offset b in '
        '[0, size] (quick: all files <= 11 kB and the synthetic ones; thorough: all files <= 70 kB, and for larger ones every offset inside '
        'every line holding a scanner keyword plus every line boundary); Parser(prefix), then parse_from_number(n) for every edition found '
        'and parse_from_index(-1); oracle: only ParserException may be raised, no call may exceed the watchdog, and a successfully parsed '
        'edition equals the same edition of the complete listing except the *_time fields and whole-listing counters; history: the same '
        'prefixes are re-run after a successful parse of another listing and after a failing parse, outcomes must coincide; threads: every keyword-line prefix of the small and synthetic listings is parsed '
        'in a worker thread that stays alive, then a second thread parses a small complete listing: neither may hang, the second result is always '
        'the same; non-trivial '
        '= prefixes that end inside a line (not at a line boundary); distinct outcomes are reported')
ASSUMPTIONS = ['time fields (a cut inside the digits of "simulation time (s): 12" yields a well-formed 1) and whole-listing counters '
               '(warnings, errors, normal_end, partial, required_batches, t4_file) are excluded from the comparison',
               'listings whose complete form does not parse have no reference edition: only exception type and no-hang are judged',
               'edition results are parsed once per distinct (edition text, scanner times) pair; the history dimension covers hidden state']
LEVEL_TEXT = ('Every byte prefix of every small example listing and of synthetic two-edition listings (thorough: every listing up to 70 kB '
              'and keyword lines of the larger ones) goes through the real scanner and parser: the outcome must be ParserException or a '
              'result whose editions equal those of the complete listing; any other exception type, a hang (watchdog) or a differing '
              'edition is a violation. Exhaustive over the crash points of a killed job for these files.')
LEVEL_NOTE = 'crash model = prefix of the final file content (append-only writer); pyparsing and the file system trusted.'

DATA = '/repo/tests/eponine/tripoli4/data'
EXCLUDED_BATCH = ('simulation_time', 'exploitation_time', 'elapsed_time', 'initialization_time')
EXCLUDED_RUN = ('warnings', 'errors', 'normal_end', 'partial', 'required_batches', 't4_file', 'initialization_time',
                'simulation_time', 'exploitation_time', 'elapsed_time')
KEYWORDS = ('BATCH', 'number of tasks is', 'PACKET_LENGTH', 'initialization time', 'simulation time', 'exploitation time',
            'elapsed time', 'RESULTS ARE GIVEN', 'batch number :', 'number of batch', 'Edition after batch number',
            'number of batches used', 'WARNING', 'ERROR', 'PARTIAL EDITION', 'NORMAL COMPLETION', '#' * 64, 'DUMP HOMOGENIZED',
            'Type and parameters of random generator', 'COUNTER')


WATCHDOG = 10          # seconds per call; a scan takes about a millisecond, a parse a few tens


class Watchdog(Exception):
    pass


def _alarm(_sig, _frm):
    raise Watchdog()


def canon(obj):
    """Hashable, comparable rendering of a parse result."""
    if isinstance(obj, dict):
        return tuple((str(k), canon(v)) for k, v in sorted(obj.items(), key=lambda kv: str(kv[0])))
    if isinstance(obj, (list, tuple)):
        return tuple(canon(v) for v in obj)
    if isinstance(obj, np.ndarray):
        return ('nd', obj.dtype.str, obj.shape, obj.tobytes())
    if isinstance(obj, np.generic):
        return ('ng', obj.dtype.str, obj.tobytes())
    if isinstance(obj, float):
        return ('f', repr(obj))
    if hasattr(obj, 'value') and hasattr(obj, 'error') and hasattr(obj, 'bins'):
        return ('ds', canon(obj.value), canon(obj.error), canon(dict(obj.bins)), obj.name, obj.what)
    if obj is None or isinstance(obj, (str, int, bool)):
        return obj
    return repr(obj)


def edition_view(res):
    """The part of ParseResult.res that must equal the complete listing's."""
    out = {}
    for key, val in res.items():
        if key == 'batch_data':
            out[key] = {k: v for k, v in val.items() if k not in EXCLUDED_BATCH}
        elif key == 'run_data':
            out[key] = {k: v for k, v in val.items() if k not in EXCLUDED_RUN}
        else:
            out[key] = val
    return canon(out)


def site(exc):
    """Innermost valjean function of the traceback (part of the finding key)."""
    frames = [f for f in traceback.extract_tb(exc.__traceback__) if '/valjean/' in f.filename]
    if not frames:
        return 'outside-valjean'
    return f'{os.path.basename(frames[-1].filename)}:{frames[-1].name}'


class Files:
    """Listing sources: name -> bytes (examples read from /repo, synthetic ones generated)."""
    _cache = {}

    @classmethod
    def get(cls, name):
        if name not in cls._cache:
            if name.startswith('synthetic:'):
                from . import t4gen
                cls._cache[name] = t4gen.named(name).encode()
            else:
                with open(os.path.join(DATA, name), 'rb') as fil:
                    cls._cache[name] = fil.read()
        return cls._cache[name]


class Runner:
    """Per-process state: scratch directory, reference editions, parse cache."""

    def __init__(self):
        self.tmp = tempfile.mkdtemp(prefix='vf_c11_')
        self.path = os.path.join(self.tmp, 'listing.res')
        self.refs = {}
        self.cache = {}

    def close(self):
        shutil.rmtree(self.tmp, ignore_errors=True)

    def write(self, data):
        with open(self.path, 'wb') as fil:
            fil.write(data)

    def reference(self, name):
        """{batch number: canonical edition} of the complete listing, or None if it does not parse."""
        if name not in self.refs:
            from valjean.eponine.tripoli4.parse import Parser
            self.write(Files.get(name))
            ref = {}
            try:
                par = Parser(self.path)
                for num in par.batch_numbers():
                    ref[num] = edition_view(par.parse_from_number(num).res)
            except Exception:  # pylint: disable=broad-except
                ref = None
            self.refs[name] = ref
        return self.refs[name]

    def outcome(self, name, data, use_cache=True):
        """Classify Parser(prefix) + parses. Returns (outcome tuple, problems[(key, what)])."""
        from valjean.eponine.tripoli4.parse import Parser, ParserException
        probs = []
        self.write(data)
        signal.alarm(WATCHDOG)
        try:
            try:
                par = Parser(self.path)
            except ParserException:
                return ('scan-error',), probs
            except Watchdog:
                return ('hang',), [('C11|hang|scan', 'Parser() exceeded the watchdog')]
            except Exception as exc:  # pylint: disable=broad-except
                return ('scan-raises', type(exc).__name__), [(f'C11|scan-raises|{type(exc).__name__}|{site(exc)}',
                                                              f'Parser() raised {type(exc).__name__}: {exc}')]
            nums = par.batch_numbers()
            ref = self.reference(name) if use_cache else None
            results = []
            for num in nums:
                ckey = (hashlib.sha1(par.scan_res[num].encode()).hexdigest(), repr(par.scan_res.times), par.scan_res.partial, num)
                if use_cache and ckey in self.cache:
                    kind, view, prob = self.cache[ckey]
                else:
                    kind, view, prob = 'ok', None, None
                    signal.alarm(WATCHDOG)
                    try:
                        view = edition_view(par.parse_from_number(num).res)
                    except ParserException:
                        kind = 'parse-error'
                    except Watchdog:
                        kind, prob = 'hang', ('C11|hang|parse', f'parse_from_number({num}) exceeded the watchdog')
                    except Exception as exc:  # pylint: disable=broad-except
                        kind = 'parse-raises:' + type(exc).__name__
                        prob = (f'C11|parse-raises|{type(exc).__name__}|{site(exc)}', f'parse_from_number({num}) raised {type(exc).__name__}: {exc}')
                    if use_cache:
                        self.cache[ckey] = (kind, view, prob)
                if prob:
                    probs.append(prob)
                if kind == 'ok' and ref is not None:
                    if num not in ref:
                        probs.append(('C11|edition|unknown-number', f'edition {num} parsed from the prefix does not exist in the complete listing {sorted(ref)}'))
                    elif view != ref[num]:
                        probs.append(('C11|edition|differs', f'edition {num} parsed from the prefix differs from the complete listing: {_diff(view, ref[num])}'))
                results.append((num, kind, hashlib.sha1(repr(view).encode()).hexdigest()[:10] if view is not None else None))
            # default entry point: last edition by index
            signal.alarm(WATCHDOG)
            try:
                par.parse_from_index(-1)
                last = 'ok'
            except ParserException:
                last = 'parse-error'
            except Watchdog:
                last = 'hang'
                probs.append(('C11|hang|parse', 'parse_from_index(-1) exceeded the watchdog'))
            except Exception as exc:  # pylint: disable=broad-except
                last = 'raises:' + type(exc).__name__
                probs.append((f'C11|parse-raises|{type(exc).__name__}|{site(exc)}', f'parse_from_index(-1) raised {type(exc).__name__}: {exc}'))
            if results and last != results[-1][1] and not (last == 'raises:' + results[-1][1].split(':')[-1]):
                probs.append(('C11|index-vs-number', f'parse_from_index(-1) -> {last}, parse_from_number({results[-1][0]}) -> {results[-1][1]}'))
            return ('scanned', tuple(results)), probs
        finally:
            signal.alarm(0)


def _diff(view, ref, path=''):
    if type(view) is not type(ref) or not isinstance(view, tuple):
        return f'{path or "/"}: {str(view)[:60]!r} vs {str(ref)[:60]!r}' if view != ref else ''
    if len(view) != len(ref):
        return f'{path or "/"}: {len(view)} items vs {len(ref)}'
    for i, (one, two) in enumerate(zip(view, ref)):
        if one != two:
            sub = f'{path}/{one[0]}' if isinstance(one, tuple) and len(one) == 2 and isinstance(one[0], str) else f'{path}/{i}'
            return _diff(one, two, sub) or f'{sub}: differs'
    return ''


def offsets_for(name, full):
    data = Files.get(name)
    if full:
        return list(range(len(data) + 1))
    out = set()
    pos = 0
    for line in data.split(b'\n'):
        end = pos + len(line)
        out.add(pos)
        out.add(min(end + 1, len(data)))
        text = line.decode('utf-8', 'ignore')
        if any(k in text for k in KEYWORDS):
            out.update(range(pos, end + 1))
        pos = end + 1
    out.add(len(data))
    return sorted(o for o in out if o <= len(data))


def job(args):
    name, offs = args
    rep = Report()
    signal.signal(signal.SIGALRM, _alarm)
    run = Runner()
    try:
        data = Files.get(name)
        for off in offs:
            out, probs = run.outcome(name, data[:off])
            inside = 0 < off < len(data) and data[off - 1:off] != b'\n'
            rep.case(nontrivial=(name, off) if inside else None, outcome=_short(out))
            for key, what in probs:
                rep.violate(key, f'{name} cut at byte {off}: {what}', {'listing': name, 'offset': off}, size=off)
        rep.counters['prefixes:' + name] += len(offs)
        rep.counters['distinct_edition_parses'] += len(run.cache)
    finally:
        run.close()
    if offs:
        rep.sample({'listing': name, 'offset': offs[len(offs) // 2]})
    return rep


def _short(out):
    if out[0] != 'scanned':
        return out
    return ('scanned', tuple(k for _, k, _ in out[1]))


def job_history(args):
    """Same prefixes (a) in this fresh state, (b) after a successful parse of another listing, (c) after a failing parse."""
    name, offs, other = args
    rep = Report()
    signal.signal(signal.SIGALRM, _alarm)
    run = Runner()
    try:
        data = Files.get(name)
        odata = Files.get(other)
        for off in offs:
            base, _ = run.outcome(name, data[:off], use_cache=False)
            run.outcome(other, odata, use_cache=False)                     # a complete, different listing
            after_ok, _ = run.outcome(name, data[:off], use_cache=False)
            run.outcome(other, odata[:len(odata) // 2], use_cache=False)   # a failing / truncated parse
            after_bad, _ = run.outcome(name, data[:off], use_cache=False)
            rep.case(nontrivial=('hist', name, off), outcome=('history',) + _short(base)[:1])
            if not base == after_ok == after_bad:
                rep.violate('C11|history-dependent', f'{name} cut at byte {off}: outcome {base} in a fresh state, {after_ok} after parsing '
                            f'{other}, {after_bad} after a failing parse', {'listing': name, 'offset': off, 'other': other}, size=off)
    finally:
        run.close()
    return rep


class Lane:
    """A worker thread that stays alive between requests (like an idle scheduler worker)."""

    def __init__(self, label):
        import queue
        import threading
        self.inq, self.outq = queue.Queue(), queue.Queue()
        self.thread = threading.Thread(target=self._loop, name=label, daemon=True)
        self.thread.start()

    def _loop(self):
        while True:
            func = self.inq.get()
            if func is None:
                return
            try:
                self.outq.put(('ok', func()))
            except BaseException as exc:  # pylint: disable=broad-except
                self.outq.put(('raises', exc))

    def call(self, func, timeout):
        import queue
        self.inq.put(func)
        try:
            return self.outq.get(timeout=timeout)
        except queue.Empty:
            return ('hang', None)

    def stop(self):
        self.inq.put(None)


def job_threads(args):
    """Whatever one thread parsed (and however that ended), another thread of the same process can parse afterwards: thread A,
    kept alive, parses a prefix; thread B then parses a small complete listing; both under a watchdog."""
    name, offs = args
    from valjean.eponine.tripoli4.parse import Parser, ParserException
    from . import t4gen
    rep = Report()
    tmp = tempfile.mkdtemp(prefix='vf_c11t_')
    path_a, path_b = os.path.join(tmp, 'a.res'), os.path.join(tmp, 'b.res')
    with open(path_b, 'w', encoding='utf-8') as fil:
        fil.write(t4gen.render(t4gen.make_spec(neditions=1, nresp=1, nzones=1, negroups=1)))
    lane_a, lane_b = Lane('A'), Lane('B')

    def parse(path):
        try:
            res = Parser(path).parse_from_index(-1)
            return ('ok', len(res.res.get('list_responses', ())))
        except ParserException:
            return ('parser-error',)

    try:
        data = Files.get(name)
        ref_b = lane_b.call(lambda: parse(path_b), 4 * WATCHDOG)
        if ref_b[0] == 'hang':
            # this process has parsed before (earlier jobs of the pool): whatever they left behind blocks a new thread
            rep.violate('C11|hang|other-thread-after|earlier-parses', 'a parse of a small complete listing in a new thread never came back '
                        'after the parses made earlier in this process', {'listing': name, 'threads': True, 'offset': 0})
            return rep
        if ref_b != ('ok', ('ok', 1)):
            rep.violate('HARNESS|c11-threads-reference', f'the small complete listing does not parse in thread B: {ref_b!r}', {'listing': name})
            return rep
        for off in offs:
            with open(path_a, 'wb') as fil:
                fil.write(data[:off])
            out_a = lane_a.call(lambda: parse(path_a), WATCHDOG)
            case = {'listing': name, 'offset': off, 'threads': True}
            if out_a[0] == 'hang':
                rep.violate('C11|hang|thread', f'{name} cut at byte {off}: the parse in thread A exceeded the watchdog', case, size=off)
                break
            if out_a[0] == 'raises':
                exc = out_a[1]
                rep.violate(f'C11|parse-raises|{type(exc).__name__}|{site(exc)}|thread',
                            f'{name} cut at byte {off}: parse in a worker thread raised {type(exc).__name__}: {exc}', case, size=off)
            out_b = lane_b.call(lambda: parse(path_b), WATCHDOG)
            rep.case(nontrivial=('threads', name, off), outcome=('threads', out_a[0] if out_a[0] != 'ok' else out_a[1][0], out_b[0]))
            if out_b[0] == 'hang':
                rep.violate('C11|hang|other-thread-after|' + (out_a[1][0] if out_a[0] == 'ok' else out_a[0]),
                            f'after thread A parsed {name} cut at byte {off} (-> {out_a[1] if out_a[0] == "ok" else out_a[0]}), a parse of a small '
                            'complete listing in thread B never came back', case, size=off)
                break                       # both lanes are lost; the finding is recorded
            if out_b != ref_b:
                rep.violate('C11|history-dependent|other-thread', f'after thread A parsed {name} cut at byte {off}, thread B gets {out_b!r} '
                            f'for the small complete listing instead of {ref_b!r}', case, size=off)
    finally:
        lane_a.stop()
        lane_b.stop()
        shutil.rmtree(tmp, ignore_errors=True)
    return rep


def plan(tier):
    small = sorted(f for f in os.listdir(DATA) if (f.endswith('.res') or f.endswith('.ceav5'))
                   and os.path.getsize(os.path.join(DATA, f)) <= 11000)
    medium = sorted(f for f in os.listdir(DATA) if (f.endswith('.res') or f.endswith('.ceav5'))
                    and 11000 < os.path.getsize(os.path.join(DATA, f)) <= 70000)
    large = sorted(f for f in os.listdir(DATA) if (f.endswith('.res') or f.endswith('.ceav5'))
                   and os.path.getsize(os.path.join(DATA, f)) > 70000)
    from . import t4gen
    synth = t4gen.names_for_c11(tier)
    sel = [(n, True) for n in small + synth]
    if tier == 'thorough':
        sel += [(n, True) for n in medium] + [(n, False) for n in large]
    else:
        sel += [(n, False) for n in medium[:3]]
    return sel, small, synth


def _call(job_):
    return job_[0](job_[1])


def run(tier, seed):
    sel, small, synth = plan(tier)
    jobs = []
    for name, full in sel:
        offs = offsets_for(name, full)
        size = len(Files.get(name))
        chunk = 400 if size < 20000 else 120
        for i in range(0, len(offs), chunk):
            jobs.append((job, (name, offs[i:i + chunk])))
    # history dimension: keyword-line offsets of the small listings and the synthetic ones
    for name in small[-3:] + synth[:1]:
        offs = offsets_for(name, False)
        step = max(1, len(offs) // (150 if tier == 'quick' else 600))
        other = synth[0] if name != synth[0] else small[-1]
        hoffs = offs[::step]
        for i in range(0, len(hoffs), 40):
            jobs.append((job_history, (name, hoffs[i:i + 40], other)))
    # thread dimension: the keyword-line offsets of the small and synthetic listings, parsed in a worker thread that stays alive
    for name in small + synth:
        offs = offsets_for(name, tier == 'thorough')
        for i in range(0, len(offs), 250):
            jobs.append((job_threads, (name, offs[i:i + 250])))
    rep = pool.pmap(_call, jobs, seed)
    rep.extra['listings'] = [n for n, _ in sel]
    rep.extra['listings_every_byte'] = [n for n, f in sel if f]
    return rep


def replay(case):
    if case.get('threads'):
        rep = job_threads((case['listing'], [case['offset']]))
        return {'problems': [(k, v[0]) for k, v in rep.violations.items()], 'violates': bool(rep.violations)}
    signal.signal(signal.SIGALRM, _alarm)
    run_ = Runner()
    try:
        data = Files.get(case['listing'])
        out, probs = run_.outcome(case['listing'], data[:case['offset']], use_cache=False)
    finally:
        run_.close()
    tail = data[max(0, case['offset'] - 80):case['offset']].decode('utf-8', 'ignore')
    return {'outcome': out, 'problems': probs, 'last bytes of the prefix': tail, 'violates': bool(probs)}
