"""Apollo3 HDF5 files written with h5py following the layout documented in
valjean/eponine/apollo3/hdf5_reader.py, from enumerated ground truth; read back through
Reader.to_browser() and Picker.pick_*  (part of check C10)."""
import itertools
import os

import numpy as np


def params(tier):
    out = []
    for nout, nzone, ngr, nisot, nreac, total, aniso in itertools.product(
            (1, 2), (1, 2), (1, 2) if tier == 'quick' else (1, 2, 3), (0, 1, 2), (1, 2), (True, False), (False, True)):
        if aniso and nisot == 0:
            continue
        out.append(dict(nout=nout, nzone=nzone, ng=ngr, nisot=nisot, nreac=nreac, total=total, aniso=aniso))
    # several outputs on ONE geometry (the layout of the shipped Mosteller files), isotope lists differing between the outputs
    # in order and content (e.g. two burnup steps): results are stored per output and per zone, nothing may be shared per geometry
    for nout, nzone, nisot, isovar, total in itertools.product((2, 3), (1, 2), (1, 2), ('same', 'rotated'), (True, False)):
        out.append(dict(nout=nout, nzone=nzone, ng=2, nisot=nisot, nreac=2, total=total, aniso=False, sharedgeom=True, isovar=isovar))
    # an isotope that is listed (ISOTOPE / CONCEN) but has no result group of its own, followed by isotopes that have one
    for nout, nzone, hole in itertools.product((1, 2), (1, 2), (0, 1)):
        out.append(dict(nout=nout, nzone=nzone, ng=2, nisot=3, nreac=1, total=False, aniso=False, norates=hole))
    return out + user_params(tier)


REACTIONS = ['Absorption', 'Fission']
ISOTOPES = ['U238', 'Xe135', 'Pu239']


def write_file(path, par):
    """Returns truth: {(output, zone, isotope or None, result name as stored): np.float32 array or scalar}."""
    import h5py
    truth = {}
    local = {}
    ngr = par['ng']

    def arr(base, size):
        return (np.arange(size, dtype=np.float32) * np.float32(0.125) + np.float32(base)).astype(np.float32)

    with h5py.File(path, 'w') as hfi:
        info = hfi.create_group('info')
        info['NOUT'] = np.array([par['nout']], dtype=np.int32)
        geo = hfi.create_group('geometry')
        shared = bool(par.get('sharedgeom'))
        geo['NGEO'] = np.array([1 if shared else par['nout']], dtype=np.int32)
        for iout in range(par['nout']):
            oname = f'output_{iout}'
            oinf = info.create_group(oname)
            igeo = 0 if shared else iout
            oinf['GEOMID'] = np.array([f'geometry_{igeo}'.encode()])
            oinf['NG'] = np.array([ngr], dtype=np.int32)
            znames = [f'zone{igeo}{k}' for k in range(par['nzone'])]
            if f'geometry_{igeo}' not in geo:
                ggr = geo.create_group(f'geometry_{igeo}')
                ggr['NZONE'] = np.array([par['nzone']], dtype=np.int32)
                ggr['VOLUME'] = np.array([10.0 * igeo + k + 0.5 for k in range(par['nzone'])], dtype=np.float32)
                ggr['ZONENAME'] = np.array([(z + '  ').encode() for z in znames])
            ogr = hfi.create_group(oname)
            if par['total']:
                tot = ogr.create_group('totaloutput')
                for k, name in enumerate(('KEFF', 'KINF')):
                    tot[name] = np.array([1.25 + iout + 0.0625 * k], dtype=np.float32)
                    truth[(oname, 'totaloutput', None, name)] = np.float32(1.25 + iout + 0.0625 * k)
                for k, name in enumerate(('FLUX', 'ABSORPTION', 'PRODUCTION')):
                    tot[name] = arr(5000 * (iout + 1) + 40 * k, ngr)
                    truth[(oname, 'totaloutput', None, name)] = arr(5000 * (iout + 1) + 40 * k, ngr)
                # optional local values of the total output
                tot['LOCALNAME'] = np.array([b'loc_a  ', b'loc_b  '])
                tot['LOCALVALUE'] = np.array([7.5 + iout, 8.25 + iout], dtype=np.float32)
                local[(oname, 'loc_a')] = np.float32(7.5 + iout)
                local[(oname, 'loc_b')] = np.float32(8.25 + iout)
            for izo, zname in enumerate(znames):
                zgr = ogr.create_group(zname)
                base = 1000 * (iout + 1) + 100 * (izo + 1)
                zgr['NISOT'] = np.array([par['nisot']], dtype=np.int32)
                zgr['FLUX'] = arr(base + 90, ngr)
                truth[(oname, zname, None, 'FLUX')] = arr(base + 90, ngr)
                mac = zgr.create_group('macro')
                for ire in range(par['nreac']):
                    mac[REACTIONS[ire]] = arr(base + 5 * ire, ngr)
                    truth[(oname, zname, 'macro', REACTIONS[ire])] = arr(base + 5 * ire, ngr)
                if par['nisot']:
                    rot = iout % len(ISOTOPES) if par.get('isovar') == 'rotated' else 0
                    isos = (ISOTOPES[rot:] + ISOTOPES[:rot])[:par['nisot']]
                    zgr['ISOTOPE'] = np.array([(i + '   ').encode() for i in isos])
                    zgr['CONCEN'] = np.array([0.5 * (k + 1) + 0.001 * base for k in range(par['nisot'])], dtype=np.float64)
                    for kis, iso in enumerate(isos):
                        truth[(oname, zname, iso, 'concentration')] = np.float64(0.5 * (kis + 1) + 0.001 * base)
                        if par.get('norates') == kis:
                            continue                    # concentration only, no group
                        igr = zgr.create_group(iso)
                        for ire in range(par['nreac']):
                            igr[REACTIONS[ire]] = arr(base + 10 * (kis + 1) + 5 * ire, ngr)
                            truth[(oname, zname, iso, REACTIONS[ire])] = arr(base + 10 * (kis + 1) + 5 * ire, ngr)
                        if par['aniso']:
                            igr['Diffusion'] = arr(base + 10 * (kis + 1) + 50, 2 * ngr)
                            truth[(oname, zname, iso, 'Diffusion')] = arr(base + 10 * (kis + 1) + 50, 2 * ngr).reshape(2, ngr)
                            inf = igr.create_group('info')
                            inf['nbAnisotropy'] = np.array([2], dtype=np.int32)
    truth['__local__'] = local
    return truth


def user_params(tier):
    """User-value ('Simple' format) files: local values stored flat (LOCALNAME / LOCALVALUE) or as one dataset per name."""
    out = []
    for layout, nval, size in itertools.product(('flat', 'group'), (1, 2, 3), (1, 4)):
        if layout == 'flat' and size != 1:
            continue        # flat local values are scalars
        out.append(dict(user=True, layout=layout, nval=nval, size=size))
    return out


def check_user_file(rep, dirname, par):
    import h5py
    from valjean.eponine.apollo3.hdf5_reader import Reader
    from valjean.eponine.apollo3.hdf5_picker import Picker
    path = os.path.join(dirname, 'ap3user.hdf')
    if os.path.exists(path):
        os.remove(path)
    names = [f'value_{k}_unit' for k in range(par['nval'])]
    truth = {}
    with h5py.File(path, 'w') as hfi:
        info = hfi.create_group('info')
        info['COMMENT'] = np.array([b'synthetic'])
        info['FORMAT'] = np.array([b'Simple'])
        out = hfi.create_group('output')
        if par['layout'] == 'flat':
            out['LOCALNAME'] = np.array([(n + '   ').encode() for n in names])
            out['LOCALVALUE'] = np.array([2.5 + k for k in range(par['nval'])], dtype=np.float32)
            for k, name in enumerate(names):
                truth[name] = np.float32(2.5 + k)
        else:
            grp = out.create_group('localvalue')
            grp['LOCALNAME'] = np.array([(n + '  ').encode() for n in names])
            for k, name in enumerate(names):
                arr = (np.arange(par['size'], dtype=np.float32) * np.float32(0.25) + np.float32(10 * (k + 1))).astype(np.float32)
                grp[name] = arr
                truth[name] = arr if par['size'] > 1 else arr[0]
    case = {'format': 'apollo3', 'params': par}
    tag = f"user|{par['layout']}"
    rep.case(nontrivial=repr(sorted(par.items())) if par['nval'] > 1 else None, outcome=('ap3-user', par['layout'], par['nval']))

    def bad(clause, text):
        rep.violate(f'C10|ap3|{clause}|{tag}', text, case, size=par['nval'])
    try:
        brw = Reader(path).to_browser()
    except Exception as exc:  # pylint: disable=broad-except
        bad(f'reader-raises|{type(exc).__name__}', f'Reader raised {exc!r}')
        return
    got = {}
    for item in brw.content:
        got.setdefault(item.get('result_name'), []).append(item)
    for name, val in truth.items():
        items = got.get(name, [])
        if len(items) != 1:
            bad('reader-missing' if not items else 'reader-duplicate', f'{name}: {len(items)} items in the browser ({sorted(map(str, got))})')
        elif not same(np.squeeze(items[0]['results'].value), np.squeeze(val)):
            bad('reader-value', f'{name}: read {np.asarray(items[0]["results"].value).tolist()}, stored {np.asarray(val).tolist()}')
    if set(got) - set(truth):
        bad('reader-extra', f'items not stored in the file: {sorted(map(str, set(got) - set(truth)))}')
    pick = Picker(path)
    try:
        zone = None if par['layout'] == 'flat' else 'localvalue'
        lnames = list(pick.local_names(output='output', zone=zone))
        if lnames != names:
            bad('picker-names', f'local names {lnames}, stored {names}')
        for name, val in truth.items():
            try:
                dset = pick.pick_user_value(output='output', result_name=name, zone=zone)
            except Exception as exc:  # pylint: disable=broad-except
                bad(f'picker-raises|{type(exc).__name__}', f'pick_user_value({name}) raised {exc!r}')
                continue
            if not same(np.squeeze(dset.value), np.squeeze(val)):
                bad('picker-value', f'{name}: picked {np.asarray(dset.value).tolist()}, stored {np.asarray(val).tolist()}')
    finally:
        pick.close()


def same(got, exp):
    got, exp = np.asarray(got), np.asarray(exp)
    return got.shape == exp.shape and np.array_equal(got, exp)


def check_file(rep, dirname, par):
    if par.get('user'):
        check_user_file(rep, dirname, par)
        return
    from valjean.eponine.apollo3.hdf5_reader import Reader
    from valjean.eponine.apollo3.hdf5_picker import Picker
    path = os.path.join(dirname, 'ap3.hdf')
    if os.path.exists(path):
        os.remove(path)
    truth = write_file(path, par)
    local = truth.pop('__local__')
    case = {'format': 'apollo3', 'params': par}
    tag = f"nisot={par['nisot']}|aniso={par['aniso']}|total={par['total']}" + ('|sharedgeom' if par.get('sharedgeom') else '') + \
        ('|isotope-without-group' if par.get('norates') is not None else '')
    nont = par['nout'] > 1 or par['nzone'] > 1 or par['nisot'] > 1
    rep.case(nontrivial=repr(sorted(par.items())) if nont else None, outcome=('ap3', par['nout'], par['nzone'], par['nisot']))

    def bad(clause, text):
        rep.violate(f'C10|ap3|{clause}|{tag}', text, case, size=len(truth))

    try:
        brw = Reader(path).to_browser()
    except Exception as exc:  # pylint: disable=broad-except
        bad(f'reader-raises|{type(exc).__name__}', f'Reader raised {exc!r}')
        return
    seen = {}
    for item in brw.content:
        key = (item.get('output'), item.get('zone'), item.get('isotope'), item.get('result_name'))
        seen.setdefault(key, []).append(item)
    lower = {}
    for (out, zone, iso, name), val in truth.items():
        lower[(out, zone, iso, name.lower())] = ((out, zone, iso, name), val)
    for key, ((out, zone, iso, name), val) in lower.items():
        items = seen.get(key, [])
        if len(items) != 1:
            bad('reader-missing' if not items else 'reader-duplicate', f'{key}: {len(items)} items in the browser')
            continue
        dset = items[0]['results']
        if not same(dset.value, val):
            bad('reader-value', f'{key}: read {np.asarray(dset.value).tolist()}, stored {np.asarray(val).tolist()}')
        if np.ndim(val) >= 1 and list(dset.bins.get('groups', [])) != list(range(par['ng'])):
            bad('reader-bins', f'{key}: group bins {dset.bins}')
    for (out, name), val in local.items():
        key = (out, 'totaloutput', None, name)
        items = seen.pop(key, [])
        if len(items) != 1 or not same(items[0]['results'].value, val):
            bad('reader-local-value', f'{key}: {[np.asarray(i["results"].value).tolist() for i in items]}, stored {val!r}')
    extra = set(seen) - set(lower)
    if extra:
        bad('reader-extra', f'items not stored in the file: {sorted(map(str, extra))[:4]}')
    geo = brw.globals.get('geometry', {})
    for iout in range(1 if par.get('sharedgeom') else par['nout']):
        exp = {f'zone{iout}{k}': np.float32(10.0 * iout + k + 0.5) for k in range(par['nzone'])}
        if {k: np.float32(v) for k, v in geo.get(f'geometry_{iout}', {}).items()} != exp:
            bad('reader-geometry', f'geometry_{iout}: {geo.get(f"geometry_{iout}")}, stored {exp}')
    # Picker: every stored result, identical to the Reader item
    pick = Picker(path)
    try:
        if sorted(pick.outputs()) != sorted({k[0] for k in truth}):
            bad('picker-outputs', f'outputs {pick.outputs()}')
        for (out, zone, iso, name), val in truth.items():
            try:
                dset = pick.pick_standard_value(output=out, zone=zone, result_name=name, isotope=iso)
            except Exception as exc:  # pylint: disable=broad-except
                bad(f'picker-raises|{type(exc).__name__}', f'pick {(out, zone, iso, name)} raised {exc!r}')
                continue
            if not same(dset.value, val):
                bad('picker-value', f'{(out, zone, iso, name)}: picked {np.asarray(dset.value).tolist()}, stored {np.asarray(val).tolist()}')
            items = seen.get((out, zone, iso, name.lower()), [])
            if len(items) == 1:
                rds = items[0]['results']
                if not same(rds.value, dset.value) or rds.what != dset.what or list(rds.bins) != list(dset.bins) \
                        or any(not np.array_equal(rds.bins[k], dset.bins[k]) for k in rds.bins):
                    bad('picker-vs-reader', f'{(out, zone, iso, name)}: picked {dset!r} vs loaded {rds!r}')
        for (out, name), val in local.items():
            try:
                dset = pick.pick_user_value(output=out, result_name=name, zone='totaloutput')
                if not same(dset.value, val):
                    bad('picker-local-value', f'{(out, name)}: picked {np.asarray(dset.value).tolist()}, stored {val!r}')
            except Exception as exc:  # pylint: disable=broad-except
                bad(f'picker-raises|{type(exc).__name__}', f'pick_user_value({out}, {name}) raised {exc!r}')
        for out in {k[0] for k in truth}:
            for zone in {k[1] for k in truth if k[0] == out}:
                exp_iso = sorted({k[2] for k in truth if k[:2] == (out, zone) and k[2]})
                got_iso = sorted(pick.isotopes(output=out, zone=zone))
                if got_iso != exp_iso:
                    bad('picker-isotopes', f'{out}/{zone}: isotopes {got_iso}, stored {exp_iso}')
                for iso in [None] + exp_iso:
                    exp_res = sorted(k[3] for k in truth if k[:3] == (out, zone, iso))
                    if exp_res == ['concentration'] and par.get('norates') is not None:
                        continue            # the isotope without a group: there is nothing to list
                    got_res = sorted(pick.results(output=out, zone=zone, isotope=iso))
                    # the listing helper also shows the bookkeeping datasets of the local values: not results, not judged
                    got_res = [r for r in got_res if r not in ('LOCALNAME', 'LOCALVALUE', 'localvalue', 'NVAL')]
                    if got_res != exp_res:
                        bad('picker-results', f'{out}/{zone}/{iso}: results {got_res}, stored {exp_res}')
    finally:
        pick.close()
