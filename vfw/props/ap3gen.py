"""Apollo3 HDF5 files written with h5py following the layout documented in
valjean/eponine/apollo3/hdf5_reader.py, from enumerated ground truth; read back through
Reader.to_browser() and Picker.pick_*  (part of check C10)."""
import itertools
import os

import numpy as np


def params(tier):
    out = []
    for nout, nzone, ngr, nisot, nreac, total, aniso in itertools.product(
            (1, 2), (1, 2), (1, 2) if tier == 'quick' else (1, 2, 3), (0, 1, 2), (1, 2), (True, False), (False, True)):
        if aniso and nisot == 0:
            continue
        out.append(dict(nout=nout, nzone=nzone, ng=ngr, nisot=nisot, nreac=nreac, total=total, aniso=aniso))
    return out


REACTIONS = ['Absorption', 'Fission']
ISOTOPES = ['U238', 'Xe135']


def write_file(path, par):
    """Returns truth: {(output, zone, isotope or None, result name as stored): np.float32 array or scalar}."""
    import h5py
    truth = {}
    ngr = par['ng']

    def arr(base, size):
        return (np.arange(size, dtype=np.float32) * np.float32(0.125) + np.float32(base)).astype(np.float32)

    with h5py.File(path, 'w') as hfi:
        info = hfi.create_group('info')
        info['NOUT'] = np.array([par['nout']], dtype=np.int32)
        geo = hfi.create_group('geometry')
        geo['NGEO'] = np.array([par['nout']], dtype=np.int32)
        for iout in range(par['nout']):
            oname = f'output_{iout}'
            oinf = info.create_group(oname)
            oinf['GEOMID'] = np.array([f'geometry_{iout}'.encode()])
            oinf['NG'] = np.array([ngr], dtype=np.int32)
            znames = [f'zone{iout}{k}' for k in range(par['nzone'])]
            ggr = geo.create_group(f'geometry_{iout}')
            ggr['NZONE'] = np.array([par['nzone']], dtype=np.int32)
            ggr['VOLUME'] = np.array([10.0 * iout + k + 0.5 for k in range(par['nzone'])], dtype=np.float32)
            ggr['ZONENAME'] = np.array([(z + '  ').encode() for z in znames])
            ogr = hfi.create_group(oname)
            if par['total']:
                tot = ogr.create_group('totaloutput')
                for k, name in enumerate(('KEFF', 'KINF')):
                    tot[name] = np.array([1.25 + iout + 0.0625 * k], dtype=np.float32)
                    truth[(oname, 'totaloutput', None, name)] = np.float32(1.25 + iout + 0.0625 * k)
                for k, name in enumerate(('FLUX', 'ABSORPTION', 'PRODUCTION')):
                    tot[name] = arr(5000 * (iout + 1) + 40 * k, ngr)
                    truth[(oname, 'totaloutput', None, name)] = arr(5000 * (iout + 1) + 40 * k, ngr)
            for izo, zname in enumerate(znames):
                zgr = ogr.create_group(zname)
                base = 1000 * (iout + 1) + 100 * (izo + 1)
                zgr['NISOT'] = np.array([par['nisot']], dtype=np.int32)
                zgr['FLUX'] = arr(base + 90, ngr)
                truth[(oname, zname, None, 'FLUX')] = arr(base + 90, ngr)
                mac = zgr.create_group('macro')
                for ire in range(par['nreac']):
                    mac[REACTIONS[ire]] = arr(base + 5 * ire, ngr)
                    truth[(oname, zname, 'macro', REACTIONS[ire])] = arr(base + 5 * ire, ngr)
                if par['nisot']:
                    isos = ISOTOPES[:par['nisot']]
                    zgr['ISOTOPE'] = np.array([(i + '   ').encode() for i in isos])
                    zgr['CONCEN'] = np.array([0.5 * (k + 1) + 0.001 * base for k in range(par['nisot'])], dtype=np.float64)
                    for kis, iso in enumerate(isos):
                        igr = zgr.create_group(iso)
                        truth[(oname, zname, iso, 'concentration')] = np.float64(0.5 * (kis + 1) + 0.001 * base)
                        for ire in range(par['nreac']):
                            igr[REACTIONS[ire]] = arr(base + 10 * (kis + 1) + 5 * ire, ngr)
                            truth[(oname, zname, iso, REACTIONS[ire])] = arr(base + 10 * (kis + 1) + 5 * ire, ngr)
                        if par['aniso']:
                            igr['Diffusion'] = arr(base + 10 * (kis + 1) + 50, 2 * ngr)
                            truth[(oname, zname, iso, 'Diffusion')] = arr(base + 10 * (kis + 1) + 50, 2 * ngr).reshape(2, ngr)
                            inf = igr.create_group('info')
                            inf['nbAnisotropy'] = np.array([2], dtype=np.int32)
    return truth


def same(got, exp):
    got, exp = np.asarray(got), np.asarray(exp)
    return got.shape == exp.shape and np.array_equal(got, exp)


def check_file(rep, dirname, par):
    from valjean.eponine.apollo3.hdf5_reader import Reader
    from valjean.eponine.apollo3.hdf5_picker import Picker
    path = os.path.join(dirname, 'ap3.hdf')
    if os.path.exists(path):
        os.remove(path)
    truth = write_file(path, par)
    case = {'format': 'apollo3', 'params': par}
    tag = f"nisot={par['nisot']}|aniso={par['aniso']}|total={par['total']}"
    nont = par['nout'] > 1 or par['nzone'] > 1 or par['nisot'] > 1
    rep.case(nontrivial=repr(sorted(par.items())) if nont else None, outcome=('ap3', par['nout'], par['nzone'], par['nisot']))

    def bad(clause, text):
        rep.violate(f'C10|ap3|{clause}|{tag}', text, case, size=len(truth))

    try:
        brw = Reader(path).to_browser()
    except Exception as exc:  # pylint: disable=broad-except
        bad(f'reader-raises|{type(exc).__name__}', f'Reader raised {exc!r}')
        return
    seen = {}
    for item in brw.content:
        key = (item.get('output'), item.get('zone'), item.get('isotope'), item.get('result_name'))
        seen.setdefault(key, []).append(item)
    lower = {}
    for (out, zone, iso, name), val in truth.items():
        lower[(out, zone, iso, name.lower())] = ((out, zone, iso, name), val)
    for key, ((out, zone, iso, name), val) in lower.items():
        items = seen.get(key, [])
        if len(items) != 1:
            bad('reader-missing' if not items else 'reader-duplicate', f'{key}: {len(items)} items in the browser')
            continue
        dset = items[0]['results']
        if not same(dset.value, val):
            bad('reader-value', f'{key}: read {np.asarray(dset.value).tolist()}, stored {np.asarray(val).tolist()}')
        if np.ndim(val) >= 1 and list(dset.bins.get('groups', [])) != list(range(par['ng'])):
            bad('reader-bins', f'{key}: group bins {dset.bins}')
    extra = set(seen) - set(lower)
    if extra:
        bad('reader-extra', f'items not stored in the file: {sorted(map(str, extra))[:4]}')
    geo = brw.globals.get('geometry', {})
    for iout in range(par['nout']):
        exp = {f'zone{iout}{k}': np.float32(10.0 * iout + k + 0.5) for k in range(par['nzone'])}
        if {k: np.float32(v) for k, v in geo.get(f'geometry_{iout}', {}).items()} != exp:
            bad('reader-geometry', f'geometry_{iout}: {geo.get(f"geometry_{iout}")}, stored {exp}')
    # Picker: every stored result, identical to the Reader item
    pick = Picker(path)
    try:
        if sorted(pick.outputs()) != sorted({k[0] for k in truth}):
            bad('picker-outputs', f'outputs {pick.outputs()}')
        for (out, zone, iso, name), val in truth.items():
            try:
                dset = pick.pick_standard_value(output=out, zone=zone, result_name=name, isotope=iso)
            except Exception as exc:  # pylint: disable=broad-except
                bad(f'picker-raises|{type(exc).__name__}', f'pick {(out, zone, iso, name)} raised {exc!r}')
                continue
            if not same(dset.value, val):
                bad('picker-value', f'{(out, zone, iso, name)}: picked {np.asarray(dset.value).tolist()}, stored {np.asarray(val).tolist()}')
            items = seen.get((out, zone, iso, name.lower()), [])
            if len(items) == 1:
                rds = items[0]['results']
                if not same(rds.value, dset.value) or rds.what != dset.what or list(rds.bins) != list(dset.bins) \
                        or any(not np.array_equal(rds.bins[k], dset.bins[k]) for k in rds.bins):
                    bad('picker-vs-reader', f'{(out, zone, iso, name)}: picked {dset!r} vs loaded {rds!r}')
        for out in {k[0] for k in truth}:
            for zone in {k[1] for k in truth if k[0] == out}:
                exp_iso = sorted({k[2] for k in truth if k[:2] == (out, zone) and k[2]})
                got_iso = sorted(pick.isotopes(output=out, zone=zone))
                if got_iso != exp_iso:
                    bad('picker-isotopes', f'{out}/{zone}: isotopes {got_iso}, stored {exp_iso}')
                for iso in [None] + exp_iso:
                    exp_res = sorted(k[3] for k in truth if k[:3] == (out, zone, iso))
                    got_res = sorted(pick.results(output=out, zone=zone, isotope=iso))
                    if got_res != exp_res:
                        bad('picker-results', f'{out}/{zone}/{iso}: results {got_res}, stored {exp_res}')
    finally:
        pick.close()
