#!/usr/bin/env python3
"""Re-confirm a stored seeded change in a fresh scratch worktree of /repo's HEAD, without `git stash`
(the stash is shared by all worktrees of a repository: concurrent stash / pop in several worktrees can swap
their contents, so confirmations must not rely on it):
  1. worktree at HEAD, demo -> must pass (exit 0),
  2. apply seeded/<slot>/patch.diff, demo -> must fail,
  3. full test suite with the change -> the 554 stable baseline tests pass,
  4. worktree removed.
Writes seeded/<slot>/confirm.json.  Usage: reconfirm_seed.py <slot> [--no-suite]"""
import json
import os
import subprocess
import sys
import xml.etree.ElementTree as ET

slot = sys.argv[1]
suite = '--no-suite' not in sys.argv
src = f'/verif/seeded/{slot}'
if not os.path.isdir(src):
    src = f'/tmp/seed/{slot}/out'
wt = f'/tmp/seedrun/reconfirm.{slot}.{os.getpid()}'
os.makedirs('/tmp/seedrun', exist_ok=True)
env = dict(os.environ, PYTHONPATH=wt, GIT_CONFIG_COUNT='1', GIT_CONFIG_KEY_0='init.defaultBranch',
           GIT_CONFIG_VALUE_0='master', MPLBACKEND='Agg')
env.pop('PYTHONHASHSEED', None)


def sh(cmd, cwd=None, timeout=3600):
    return subprocess.run(cmd, shell=True, cwd=cwd or wt, env=env, capture_output=True, text=True, timeout=timeout)


def demo():
    # the demos were written for /tmp/seed/<slot>/wt: run a copy with the paths redirected to this worktree
    text = open(f'{src}/demo.py', encoding='utf-8').read().replace(f'/tmp/seed/{slot}/wt', wt)
    path = f'{wt}/.demo_{slot}.py'
    open(path, 'w', encoding='utf-8').write(text)
    try:
        r = sh(f'/venv/bin/python {path}', timeout=900)
        return r.returncode, (r.stdout + r.stderr)[-500:]
    except subprocess.TimeoutExpired:
        return 124, 'demo timed out after 900 s'
    finally:
        os.remove(path)


res = {'slot': slot, 'head': subprocess.run('git -C /repo rev-parse --short HEAD', shell=True, capture_output=True, text=True).stdout.strip()}
r = sh(f'git -C /repo worktree add --detach {wt} HEAD', cwd='/')
if r.returncode:
    sys.exit('cannot create worktree: ' + r.stderr)
try:
    rc0, tail0 = demo()
    res['demo_without_change'] = {'exit': rc0, 'tail': tail0}
    r = sh(f'git apply {src}/patch.diff')
    if r.returncode:
        r = sh(f'git apply --3way {src}/patch.diff')
        res['applied'] = '3way' if r.returncode == 0 else 'FAILED: ' + r.stderr[-300:]
    else:
        res['applied'] = 'clean'
    if res['applied'].startswith('FAILED'):
        res['confirmed'] = False
    else:
        rc1, tail1 = demo()
        res['demo_with_change'] = {'exit': rc1, 'tail': tail1}
        ok = rc0 == 0 and rc1 != 0
        if suite:
            junit = f'{wt}/.junit_{slot}.xml'
            sh(f'/venv/bin/python -m pytest -q -p no:cacheprovider --timeout=900 --continue-on-collection-errors '
               f'--junitxml={junit} > {wt}/.tests_{slot}.log 2>&1', timeout=5400)
            stable = set(json.load(open('/root/.vp/BASELINE.json'))['stable_pass'])
            passed = set()
            for tc in ET.parse(junit).getroot().iter('testcase'):
                if not any(ch.tag in ('failure', 'error', 'skipped') for ch in tc):
                    passed.add(tc.get('classname') + '::' + tc.get('name'))
            missing = sorted(stable - passed)
            # tests.eponine.tripoli4.test_common::test_parse_keff_auto_roundtrip is a hypothesis test with a rare falsifying example on the
            # unmodified tree as well (once found it is replayed from the worktree's .hypothesis database): re-run it alone on a fresh database
            FLAKY = {'tests.eponine.tripoli4.test_common::test_parse_keff_auto_roundtrip': ('tests/eponine/tripoli4/test_common.py', 'test_parse_keff_auto_roundtrip'),
                     'tests.eponine.test_browser::test_build_index': ('tests/eponine/test_browser.py', 'test_build_index')}   # hypothesis tests with rare falsifying examples on the unmodified tree too
            for flaky, (path, name) in FLAKY.items():
                if flaky in missing:
                    sh('rm -rf .hypothesis')
                    again = sh(f'/venv/bin/python -m pytest -q -p no:cacheprovider {path} -k {name}', timeout=900)
                    res.setdefault('flaky_rerun', {})[name] = again.stdout[-200:]
                    if again.returncode == 0:
                        missing.remove(flaky)
            res['suite'] = {'stable_expected': len(stable), 'stable_passed': len(stable & passed), 'missing': missing[:20]}
            ok = ok and not missing
        res['confirmed'] = ok
finally:
    subprocess.run(f'git -C /repo worktree remove --force {wt}; rm -rf {wt}', shell=True, capture_output=True)
if os.path.isdir(f'/verif/seeded/{slot}'):
    json.dump(res, open(f'/verif/seeded/{slot}/confirm.json', 'w'), indent=1)
print(json.dumps(res, indent=1))
