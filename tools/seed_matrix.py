#!/usr/bin/env python3
"""Run, for every seeded change under /verif/seeded, the quick check of the property it breaks (tools/try_seed.sh: apply to
/repo, run, revert) and write seeded/MATRIX.md + seeded/matrix.json.  Usage: seed_matrix.py [slot ...]"""
import json
import os
import re
import subprocess
import sys

ROOT = '/verif/seeded'
fixed = {}
for line in open('/verif/known_findings.txt'):
    m = re.match(r'fixed: property=(C\d+) (\w+) ', line)
    if m:
        fixed.setdefault(m.group(2), []).append(m.group(1))
slots = sys.argv[1:] or sorted(d for d in os.listdir(ROOT) if os.path.isdir(os.path.join(ROOT, d)))
out_path = os.path.join(ROOT, 'matrix.json')
matrix = json.load(open(out_path)) if os.path.exists(out_path) else {}
for slot in slots:
    meta = {}
    try:
        meta = json.load(open(os.path.join(ROOT, slot, 'meta.json')))
    except Exception:
        pass
    props = [meta.get('property')] if re.fullmatch(r'C\d+', str(meta.get('property'))) else []
    if slot.startswith('prefix-'):
        props = fixed.get(slot[7:], props)
    for pid in props:
        res = subprocess.run(['/verif/tools/try_seed.sh', slot, pid], capture_output=True, text=True)
        text = res.stdout + res.stderr
        keys = re.findall(r'key=(\S+)', text)
        m = re.search(r'rc=(\d+)', text)
        if 'does not apply' in text or 'with conflicts' in text or m is None:
            verdict = 'PATCH-DOES-NOT-APPLY'
        elif m.group(1) == '1' and keys:
            verdict = 'DETECTED'
        else:
            verdict = 'MISSED'
        matrix[f'{slot}:{pid}'] = {'slot': slot, 'property': pid, 'verdict': verdict, 'keys': sorted(set(keys))[:4],
                                   'needs': str(meta.get('needs', ''))[:300]}
        print(slot, pid, verdict, sorted(set(keys))[:2], flush=True)
        json.dump(matrix, open(out_path, 'w'), indent=1)
with open(os.path.join(ROOT, 'MATRIX.md'), 'w') as fil:
    fil.write('# Seeded changes vs checks (quick tier)\n\n| seeded change | property | verdict | first finding keys |\n|---|---|---|---|\n')
    for key in sorted(matrix):
        row = matrix[key]
        fil.write(f"| {row['slot']} | {row['property']} | {row['verdict']} | {'<br>'.join(row['keys'][:2])} |\n")
