#!/bin/sh
# run every claimed quick check on the current /repo tree and rewrite evidence/; prints one line per check
cd /verif || exit 2
for pid in $(/venv/bin/python -c "import json;print(' '.join(c['property_id'] for c in json.load(open('MANIFEST.json'))['checks']))"); do
  if [ -n "$1" ] && ! echo " $* " | grep -q " $pid "; then continue; fi
  ./vf check $pid --tier quick 2>&1 | grep -E "^(VIOLATION|KNOWN-FINDING|$pid )"; echo "   rc=$? $pid"
done
./vf selftest --what schema 2>&1 | tail -25
