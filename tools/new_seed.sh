#!/bin/sh
# usage: new_seed.sh <PID> <slot> [hint]  -> creates scratch worktree and prints the agent prompt
set -e
pid="$1"; slot="$2"; hint="$3"
mkdir -p /tmp/seed/$slot/out
git -C /repo worktree add --detach /tmp/seed/$slot/wt HEAD >/dev/null 2>&1
python3 /verif/tools/seed_prompt.py "$pid" "$slot" "$hint"
