#!/bin/sh
# usage: try_mutant.sh <PID> <file relative to the repo> <python expression old> <new> [tier]
# One-off mutant: scratch worktree of /repo's HEAD, textual replacement (must match exactly once), quick check, clean up.
pid="$1"; file="$2"; old="$3"; new="$4"; tier="${5:-quick}"
wt=/tmp/seedrun/mut.$$
mkdir -p /tmp/seedrun /verif/.scratch/mutant
git -C /repo worktree add --detach "$wt" HEAD >/dev/null 2>&1 || { echo "cannot create worktree"; exit 2; }
cleanup() { git -C /repo worktree remove --force "$wt" >/dev/null 2>&1; rm -rf "$wt"; }
OLD="$old" NEW="$new" python3 - "$wt/$file" <<'PY' || { cleanup; exit 2; }
import os, sys
s = open(sys.argv[1]).read()
n = s.count(os.environ['OLD'])
if n != 1:
    sys.exit(f'pattern matches {n} times')
open(sys.argv[1], 'w').write(s.replace(os.environ['OLD'], os.environ['NEW']))
PY
PYTHONPATH="$wt" VF_OUT=/verif/.scratch/mutant /verif/vf check "$pid" --tier "$tier" > /verif/.scratch/mutant/$pid.log 2>&1
rc=$?
cleanup
echo "mutant pid=$pid rc=$rc"
grep -E "VIOLATION|key=|^$pid " /verif/.scratch/mutant/$pid.log | cut -c1-260 | head -8
