#!/bin/sh
# usage: record_fix.sh <PID> "<commit subject after 'fix: '>" "<commit body>" "<what failed + finding keys>"
# commits the staged+unstaged changes under /repo/valjean as one fix: commit, stores the reverse patch as a
# seeded change (the pre-fix defect) and appends the 'fixed:' line to known_findings.txt
set -e
pid="$1"; subj="$2"; body="$3"; what="$4"
cd /repo
git add valjean
git commit -q -m "fix: $subj" -m "$body"
c=$(git rev-parse --short HEAD)
mkdir -p /verif/seeded/prefix-$c
git diff $c $c~1 > /verif/seeded/prefix-$c/patch.diff
cat > /verif/seeded/prefix-$c/meta.json <<EOM
{"property": "$pid", "summary": "reverse of fix commit $c of /repo ($subj): re-introduces the genuine defect that the commit repaired", "needs": "$what", "ran": "tools/try_seed.sh prefix-$c $pid: the check reports the violation again; the baseline suite passes on the pre-fix code by construction (it was the shipped code)"}
EOM
echo "fixed: property=$pid $c $what" >> /verif/known_findings.txt
echo "recorded $c"
