#!/usr/bin/env python3
"""Confirm a seeded change delivered by a sub-agent, in its scratch worktree:
  - the demo passes without the change and fails with it,
  - the repository's 554 stable baseline tests still pass with the change.
Then store it under /verif/seeded/<slot>/ and remove the worktree.
Usage: confirm_seed.py <slot> [--keep-wt]"""
import json
import os
import shutil
import subprocess
import sys
import xml.etree.ElementTree as ET

slot = sys.argv[1]
base = f'/tmp/seed/{slot}'
wt, out = base + '/wt', base + '/out'
env = dict(os.environ, PYTHONPATH=wt, GIT_CONFIG_COUNT='1', GIT_CONFIG_KEY_0='init.defaultBranch',
           GIT_CONFIG_VALUE_0='master', MPLBACKEND='Agg')
env.pop('PYTHONHASHSEED', None)


def sh(cmd, **kw):
    return subprocess.run(cmd, shell=True, cwd=wt, env=env, capture_output=True, text=True, **kw)


def demo():
    r = sh(f'/venv/bin/python {out}/demo.py', timeout=600)
    return r.returncode, (r.stdout + r.stderr)[-600:]


res = {'slot': slot}
diff = sh('git diff').stdout
if not diff.strip():
    sys.exit('no change applied in worktree')
open(out + '/patch.diff', 'w').write(diff)
res['files'] = sh('git diff --name-only').stdout.split()
if any(not f.startswith('valjean/') for f in res['files']):
    res['warning'] = 'change touches files outside valjean/'
rc_with, tail_with = demo()
# no `git stash` here: the stash is shared by all worktrees of the repository, concurrent confirmations would swap their changes
back = sh(f'git apply -R {out}/patch.diff')
if back.returncode:
    sys.exit('cannot revert the change: ' + back.stderr)
rc_without, tail_without = demo()
again = sh(f'git apply {out}/patch.diff')
if again.returncode or sh('git diff').stdout != diff:
    sys.exit('cannot re-apply the change: ' + again.stderr)
res['demo_with_change'] = {'exit': rc_with, 'tail': tail_with}
res['demo_without_change'] = {'exit': rc_without, 'tail': tail_without}
junit = out + '/junit_confirm.xml'
r = sh(f'/venv/bin/python -m pytest -q -p no:cacheprovider --timeout=900 --continue-on-collection-errors '
       f'--junitxml={junit} > {out}/tests_confirm.log 2>&1', timeout=3600)
stable = set(json.load(open('/root/.vp/BASELINE.json'))['stable_pass'])
passed = set()
for tc in ET.parse(junit).getroot().iter('testcase'):
    if not any(ch.tag in ('failure', 'error', 'skipped') for ch in tc):
        passed.add(tc.get('classname') + '::' + tc.get('name'))
missing = sorted(stable - passed)
# tests.eponine.tripoli4.test_common::test_parse_keff_auto_roundtrip is a hypothesis test with a rare falsifying example on the
# unmodified tree as well (once found it is replayed from the worktree's .hypothesis database): re-run it alone on a fresh database
FLAKY = {'tests.eponine.tripoli4.test_common::test_parse_keff_auto_roundtrip': ('tests/eponine/tripoli4/test_common.py', 'test_parse_keff_auto_roundtrip'),
         'tests.eponine.test_browser::test_build_index': ('tests/eponine/test_browser.py', 'test_build_index')}   # hypothesis tests with rare falsifying examples on the unmodified tree too
for flaky, (path, name) in FLAKY.items():
    if flaky in missing:
        sh('rm -rf .hypothesis')
        again = sh(f'/venv/bin/python -m pytest -q -p no:cacheprovider {path} -k {name}', timeout=900)
        res.setdefault('flaky_rerun', {})[name] = again.stdout[-200:]
        if again.returncode == 0:
            missing.remove(flaky)
res['suite'] = {'stable_expected': len(stable), 'stable_passed': len(stable & passed), 'missing': missing[:20]}
res['confirmed'] = (rc_with != 0 and rc_without == 0 and not missing)
json.dump(res, open(out + '/confirm.json', 'w'), indent=1)
print(json.dumps(res, indent=1))
if res['confirmed']:
    dest = f'/verif/seeded/{slot}'
    os.makedirs(dest, exist_ok=True)
    for f in ('patch.diff', 'demo.py', 'confirm.json'):
        shutil.copy(f'{out}/{f}', dest)
    meta = {}
    try:
        meta = json.load(open(out + '/meta.json'))
    except Exception as exc:
        meta = {'meta_error': repr(exc)}
    meta['confirmed_by'] = ('tools/confirm_seed.py: demo exit 0 without / non-zero with the change in a scratch worktree; '
                            f'full suite with the change: {len(stable & passed)}/{len(stable)} stable baseline tests pass')
    json.dump(meta, open(dest + '/meta.json', 'w'), indent=1)
    if '--keep-wt' not in sys.argv:
        subprocess.run(['git', '-C', '/repo', 'worktree', 'remove', '--force', wt])
        shutil.rmtree(base, ignore_errors=True)
