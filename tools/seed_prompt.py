#!/usr/bin/env python3
"""Print the prompt given to a fresh sub-agent that is asked for a
property-breaking change (seeded defect).  Usage: seed_prompt.py C07 C07a [hint]

The agent gets only the text of the property and its own scratch worktree."""
import json
import sys

pid, slot = sys.argv[1], sys.argv[2]
extra = sys.argv[3] if len(sys.argv) > 3 else ''
props = {json.loads(l)['id']: json.loads(l) for l in open('/verif/properties.jsonl')}
p = props[pid]
wt = f'/tmp/seed/{slot}/wt'
out = f'/tmp/seed/{slot}/out'
print(f"""You are helping to evaluate a verification tool by producing ONE realistic, subtle defect ("seeded change") in a Python code base.

The code base is valjean (a Python framework that parses Tripoli-4/Apollo3 Monte Carlo outputs, runs statistical comparison tests, schedules validation tasks through a dependency graph and generates reports). You have your own private git worktree of it at {wt} . Work ONLY inside {wt} and {out} . Do not read or touch /repo, /verif or /root/.vp, and do not look at other directories under /tmp/seed.

The property your change must break (this is a semantic property users rely on):

  id: {p['id']}
  title: {p['title']}
  statement: {p['statement']}
  quantified over: {p['quantifier']['text']}
  code it is anchored in: {', '.join(p['anchors']['files'])}

What I need from you:
1. A small source change inside {wt}/valjean/ (not in tests) that makes the property FALSE for some inputs / schedules / histories, while
   - the code still imports and the existing test suite still passes exactly as before (same passing tests as on the unmodified tree), and
   - the breakage needs something specific to manifest: a particular interleaving, a crash or fault at a particular point, a multi-step sequence of operations, an unusual input shape or value, or two cooperating sites that each look fine alone. NOT something that ordinary use or the simplest call would expose at once. It should look like a plausible refactoring slip, optimisation or "fix" a developer could commit, not like sabotage. {extra}
2. A demonstration: a standalone script {out}/demo.py (plain python, run as `cd {wt} && PYTHONPATH={wt} /venv/bin/python {out}/demo.py`) that exits 0 on the UNMODIFIED tree and exits non-zero (assertion failure) WITH your change, by exercising the public API the property talks about. Check both directions yourself with `git diff > {out}/patch.diff; git apply -R {out}/patch.diff; <run>; git apply {out}/patch.diff` inside the worktree. Do NOT use `git stash`: the stash is shared with other worktrees of the same repository that other people are using at the same time, and a `stash pop` can then bring in somebody else's change.
3. {out}/patch.diff = output of `git -C {wt} diff` for your change (source only, no test changes), and {out}/meta.json with keys: "property" ("{p['id']}"), "summary" (one paragraph: what the change does), "needs" (what specific circumstance is needed for it to manifest), "files" (list of changed files), "ran" (the commands you ran and their outcome: demo before/after, test suite before/after).

How to run the existing test suite (takes 3-5 minutes, run it serially, do NOT use pytest-xdist/-n):
  cd {wt} && GIT_CONFIG_COUNT=1 GIT_CONFIG_KEY_0=init.defaultBranch GIT_CONFIG_VALUE_0=master PYTHONPATH={wt} /venv/bin/python -m pytest -ra -q -p no:cacheprovider --timeout=900 --continue-on-collection-errors --junitxml={out}/junit_after.xml > {out}/tests_after.log 2>&1
About 28 tests/doctests fail on the UNMODIFIED tree in this sandbox (logger integration tests and a few module doctests); that is expected. Run the suite once on the unmodified tree first (junit_before.xml) and once with your change (junit_after.xml) and make sure the set of failing tests is identical. To save time you may first run only the test files closest to your change, but the final claim must rest on a full run with the change applied.
Python to use: /venv/bin/python (3.12, has numpy, scipy, pyparsing, h5py, docutils, matplotlib, pytest, hypothesis). There is no network.

Leave the change APPLIED in the worktree when you finish (uncommitted), with {out}/patch.diff, {out}/demo.py and {out}/meta.json written. In your final answer, summarise the change, what it needs to manifest, and the before/after results of demo and test suite. Be honest: if the suite result changed or you could not confirm something, say so.""")
