#!/venv/bin/python
"""Regenerate /verif/MANIFEST.json from the table below (single source of truth
for the claimed checks).  Run after adding a check."""
import json
import os

ROOT = os.path.dirname(os.path.dirname(os.path.abspath(__file__)))

GIT = 'GIT_CONFIG_COUNT=1 GIT_CONFIG_KEY_0=init.defaultBranch GIT_CONFIG_VALUE_0=master'

# Claimed checks are discovered from vfw/props/c*.py (module attributes ENGINE, LEVEL, TECHNIQUE, LEVEL_TEXT,
# LEVEL_NOTE, DESIGN_REF); a module without LEVEL_TEXT is not claimed.  Run with /venv/bin/python.
import glob
import importlib
import sys
sys.path.insert(0, ROOT)

C16 = ('E-hist', 'model_checking',
       'explicit-state BFS over edit histories of the real DepGraph vs a node/edge-set reference; exhaustive enumeration of all DAGs <= 5 nodes, cyclic digraphs <= 4 nodes, nested graphs',
       'Every concrete graph layout reachable by <= 4-6 editing operations over a 2-4 node alphabet is visited and compared, '
       'through the public API, with a set-of-nodes/set-of-pairs reference, including derived graphs and aliasing; sort / reduction / closure / depends are '
       'checked on every labelled DAG up to 5 nodes (thorough) and flatten on every small nested graph. Exhaustive within these bounds, which is what the property '
       'quantifies over for <= 5 nodes; larger graphs are out of scope.',
       'Nodes identified by identity as documented; small-scope hypothesis for histories longer than the depth bound.', '5/C16')


def discover():
    checks = {}
    for path in sorted(glob.glob(os.path.join(ROOT, 'vfw', 'props', 'c[0-9][0-9].py'))):
        name = os.path.basename(path)[:-3]
        mod = importlib.import_module('vfw.props.' + name)
        pid = name.upper()
        if pid == 'C16' and not hasattr(mod, 'LEVEL_TEXT'):
            checks[pid] = C16
            continue
        if not getattr(mod, 'LEVEL_TEXT', None):
            continue
        checks[pid] = (mod.ENGINE, mod.LEVEL, mod.TECHNIQUE, mod.LEVEL_TEXT, mod.LEVEL_NOTE, mod.DESIGN_REF)
    return checks


CHECKS = discover()

NOT_APPLICABLE = {
}


def main():
    props = [json.loads(l)['id'] for l in open(os.path.join(ROOT, 'properties.jsonl'))]
    checks = []
    for pid in props:
        if pid not in CHECKS:
            continue
        engine, cat, tech, text, note, ref = CHECKS[pid]
        checks.append({
            'property_id': pid,
            'quick_cmd': f'./vf check {pid} --tier quick',
            'thorough_cmd': f'./vf check {pid} --tier thorough',
            'evidence_file': f'/verif/evidence/{pid}.json',
            'replay_cmd_template': './vf replay {path}',
            'engine': engine,
            'level_claimed': {'category': cat, 'text': text, 'design_ref': 'DESIGN.md section ' + ref},
            'level_note': note,
            'technique': tech,
        })
    na = [{'property_id': p, 'reason': NOT_APPLICABLE.get(p, 'check not built yet in this session (planned, see DESIGN.md); not claimed until it exists')}
          for p in props if p not in CHECKS]
    manifest = {
        'version': 1,
        'setup_cmd': 'cd /verif && ./vf selftest --what setup',
        'hooks': {
            'guard': 'VALJEAN_VERIF',
            'enable': 'no source hooks are needed: the scheduler checks import fresh copies of the cosette modules under fake threading / queue / time modules, '
                      'the others drive the public API, real files in scratch directories and reset the class-level caches (DESIGN.md 2.6)',
            'baseline_off_cmd': f'cd /repo && {GIT} /venv/bin/python -m pytest -ra -q -p no:cacheprovider --timeout=900 '
                                '--continue-on-collection-errors --junitxml=/tmp/valjean_baseline.junit.xml',
            'source_commits': [],
            'add_only': True,
        },
        'engines': [
            {'name': 'E-sched', 'path': 'vfw/sched', 'serves_properties': ['C01', 'C02', 'C03', 'C04', 'C19'],
             'kind_free_text': 'stateless exploration of thread interleavings of the real scheduler under a controlled scheduler (preemption-bounded DFS, iterative context bounding)'},
            {'name': 'E-hist', 'path': 'vfw/core/bfs.py', 'serves_properties': ['C04', 'C08', 'C13', 'C14', 'C15', 'C16'],
             'kind_free_text': 'explicit-state BFS over histories of real API calls with canonicalised states and a lock-step reference model'},
            {'name': 'E-crash', 'path': 'vfw/props', 'serves_properties': ['C11', 'C14'],
             'kind_free_text': 'enumeration of every byte prefix / torn-write pattern of every written file (and, for C14, a write cut after every k bytes inside the real write path), real reader run on each'},
            {'name': 'E-input', 'path': 'vfw/props', 'serves_properties': ['C05', 'C06', 'C07', 'C08', 'C09', 'C10', 'C12', 'C18', 'C19', 'C20'],
             'kind_free_text': 'bounded exhaustive enumeration of inputs over a small alphabet against a reference model, incl. metamorphic relations'},
        ],
        'checks': checks,
        'not_applicable': na,
        'notes': 'All checks: cwd=/verif, run with /venv/bin/python against /repo working tree (valjean is installed there in development mode). '
                 'Known findings: /verif/known_findings.txt. Replays: /verif/replays/<id>/ (written on violation).',
    }
    with open(os.path.join(ROOT, 'MANIFEST.json'), 'w') as fil:
        json.dump(manifest, fil, indent=1)
        fil.write('\n')


if __name__ == '__main__':
    main()
