#!/bin/sh
# usage: try_seed.sh <slot> <PID> [tier]   apply a seeded change to /repo, run the check, undo the change.
# Evidence/replays go to /verif/.scratch/<slot>/ so the committed evidence is untouched.
slot="$1"; pid="$2"; tier="${3:-quick}"
patch=/verif/seeded/$slot/patch.diff
[ -f "$patch" ] || patch=/tmp/seed/$slot/out/patch.diff
cd /repo || exit 2
if [ -n "$(git status --porcelain -- valjean)" ]; then echo "repo not clean"; exit 2; fi
git apply "$patch" 2>/dev/null || git apply --3way "$patch" || { git reset -q HEAD -- valjean; git checkout -- valjean; exit 2; }
mkdir -p /verif/.scratch/$slot
VF_OUT=/verif/.scratch/$slot /verif/vf check "$pid" --tier "$tier" > /verif/.scratch/$slot/$pid.$tier.log 2>&1
rc=$?
git reset -q HEAD -- valjean; git checkout -- valjean
echo "slot=$slot pid=$pid tier=$tier rc=$rc"
grep -E "VIOLATION|KNOWN-FINDING|key=|^$pid " /verif/.scratch/$slot/$pid.$tier.log | head -12
