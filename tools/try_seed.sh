#!/bin/sh
# usage: try_seed.sh <slot> <PID> [tier]
# Applies a seeded change to a scratch worktree of /repo's HEAD (under /tmp/seedrun, removed afterwards), runs the check
# against it (PYTHONPATH puts the worktree before the /repo entry of the venv) and prints the interface lines.
# Evidence / replays go to /verif/.scratch/<slot>/ so the committed evidence is untouched.  /repo itself is not modified.
# (The documented alternative - git -C /repo apply, run, git -C /repo checkout -- . - gives the same result.)
slot="$1"; pid="$2"; tier="${3:-quick}"
patch=/verif/seeded/$slot/patch.diff
[ -f "$patch" ] || patch=/tmp/seed/$slot/out/patch.diff
wt=/tmp/seedrun/$slot.$pid.$$
mkdir -p /tmp/seedrun /verif/.scratch/$slot
git -C /repo worktree add --detach "$wt" HEAD >/dev/null 2>&1 || { echo "cannot create worktree"; exit 2; }
cleanup() { git -C /repo worktree remove --force "$wt" >/dev/null 2>&1; rm -rf "$wt"; }
if ! git -C "$wt" apply "$patch" 2>/dev/null; then
  if ! git -C "$wt" apply --3way "$patch" >/dev/null 2>&1 || [ -n "$(git -C "$wt" diff --name-only --diff-filter=U)" ]; then
    echo "slot=$slot pid=$pid patch does not apply"; cleanup; exit 2
  fi
fi
PYTHONPATH="$wt" VF_OUT=/verif/.scratch/$slot /verif/vf check "$pid" --tier "$tier" > /verif/.scratch/$slot/$pid.$tier.log 2>&1
rc=$?
cleanup
echo "slot=$slot pid=$pid tier=$tier rc=$rc"
grep -E "VIOLATION|KNOWN-FINDING|key=|^$pid " /verif/.scratch/$slot/$pid.$tier.log | head -12
